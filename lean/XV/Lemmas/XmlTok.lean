/- Round-trip lemmas for stage 1 of the reference recogniser: characters ↔ tokens. -/
import XV.Lemmas.XmlLex
namespace XV.Lemmas.Xml
open XV.Spec.Xml XV.Spec.XmlChar

theorem headNot_append {p : Char → Bool} {a b : Str} (ha : ∀ c ∈ a, p c = false) (hb : HeadNot p b) :
    HeadNot p (a ++ b) := by
  cases a with
  | nil => exact hb
  | cons c t => exact ha c (List.mem_cons_self ..)

theorem renderPiece_length_pos (p : AttPiece) : 0 < (renderPiece p).length := by
  cases p <;> simp [renderPiece, renderCharRef, renderEntRef]

theorem renderPieces_length (ps : List AttPiece) : ps.length ≤ (renderPieces ps).length := by
  induction ps with
  | nil => simp [renderPieces]
  | cons p ps ih =>
    have := renderPiece_length_pos p
    simp only [renderPieces, List.length_cons, List.length_append]; omega

/-! ### attributes -/

/-- Name Eq AttValue -/
def attrBody (a : Attr) : Str := a.name ++ renderEq a.eq ++ renderQuoted a.q (renderPieces a.val)

theorem renderAttr_eq (a : Attr) : renderAttr a = a.pre ++ attrBody a := by
  simp [renderAttr, attrBody, List.append_assoc]

def lexAttrBody (a : Attr) : Bool := isName a.name && lexEq a.eq && a.val.all (lexPiece a.q)

theorem renderEq_headNot (e : EqS) (rest : Str) (h : lexEq e = true) : HeadNot isNameCharC (renderEq e ++ rest) := by
  simp only [lexEq, allS, Bool.and_eq_true, List.all_eq_true] at h
  simp only [renderEq, List.append_assoc]
  exact headNot_append (fun c hc => S_notNameChar c (h.1 c hc)) (by show isNameCharC '=' = false; decide)

theorem quote_notS (q : Quote) : isSC q.char = false := by cases q <;> decide

theorem parseAttr_render (a : Attr) (rest : Str) (h : lexAttrBody a = true) :
    parseAttr a.pre (attrBody a ++ rest) = .ok (a, rest) := by
  simp only [lexAttrBody, Bool.and_eq_true, List.all_eq_true] at h
  obtain ⟨⟨hn, he⟩, hv⟩ := h
  have e1 : attrBody a ++ rest = a.name ++ (renderEq a.eq ++ (a.q.char :: (renderPieces a.val ++ a.q.char :: rest))) := by
    simp [attrBody, renderQuoted, List.append_assoc]
  have p1 := parseName_render a.name _ hn (renderEq_headNot a.eq (a.q.char :: (renderPieces a.val ++ a.q.char :: rest)) he)
  have p2 := parseEq_render a.eq (a.q.char :: (renderPieces a.val ++ a.q.char :: rest)) he (quote_notS a.q)
  have p3 := parseQuote_render a.q (renderPieces a.val ++ a.q.char :: rest)
  have p4 := parsePieces_render a.q a.val (renderPieces a.val ++ a.q.char :: rest).length rest hv
    (by have := renderPieces_length a.val; simp only [List.length_append, List.length_cons]; omega)
  simp only [parseAttr, e1, p1, p2, p3, p4]

theorem parseAttr_sound (pre s : Str) (a : Attr) (r : Str) (h : parseAttr pre s = .ok (a, r)) :
    a.pre = pre ∧ s = attrBody a ++ r ∧ lexAttrBody a = true := by
  simp only [parseAttr] at h
  cases h1 : parseName s with
  | none => simp [h1] at h
  | some nr =>
    obtain ⟨n, r1⟩ := nr
    simp only [h1] at h
    cases h2 : parseEq r1 with
    | none => simp [h2] at h
    | some er =>
      obtain ⟨e, r2⟩ := er
      simp only [h2] at h
      cases h3 : parseQuote r2 with
      | none => simp [h3] at h
      | some qr =>
        obtain ⟨q, r3⟩ := qr
        simp only [h3] at h
        cases h4 : parsePieces q r3.length r3 with
        | error e => simp [h4] at h
        | ok pr =>
          obtain ⟨ps, r4⟩ := pr
          simp only [h4, Except.ok.injEq, Prod.mk.injEq] at h
          obtain ⟨rfl, rfl⟩ := h
          have s1 := parseName_sound _ _ _ h1
          have s2 := parseEq_sound _ _ _ h2
          have s3 := parseQuote_sound _ _ _ h3
          have s4 := parsePieces_sound _ _ _ _ _ h4
          refine ⟨rfl, ?_, ?_⟩
          · simp only [attrBody, renderQuoted, List.append_assoc, List.cons_append, List.nil_append]
            rw [s1.1, s2.1, s3, s4.1]
          · simp only [lexAttrBody, Bool.and_eq_true, List.all_eq_true]
            exact ⟨⟨s1.2.1, s2.2.1⟩, s4.2⟩

/-! ### the attribute list of a tag and its end -/

def tagClose (e : Bool) : Str := if e then ['/', '>'] else ['>']

theorem tagClose_head (e : Bool) : ∃ c t, tagClose e = c :: t ∧ isDelim c = true := by
  cases e
  · exact ⟨'>', [], rfl, by decide⟩
  · exact ⟨'/', ['>'], rfl, by decide⟩

theorem lexAttr_split (a : Attr) : lexAttr a = (allS a.pre && !a.pre.isEmpty && lexAttrBody a) := by
  simp only [lexAttr, lexAttrBody, Bool.and_assoc]

theorem renderAttrs_length (as : List Attr) (h : ∀ a ∈ as, lexAttr a = true) : as.length ≤ (renderAttrs as).length := by
  induction as with
  | nil => simp [renderAttrs]
  | cons a as ih =>
    have ha := h a (List.mem_cons_self ..)
    rw [lexAttr_split] at ha
    simp only [Bool.and_eq_true, Bool.not_eq_true', List.isEmpty_eq_false_iff] at ha
    have : 0 < a.pre.length := List.length_pos_iff.mpr ha.1.2
    have ih' := ih (fun x hx => h x (List.mem_cons_of_mem _ hx))
    simp only [renderAttrs, renderAttr_eq, List.length_cons, List.length_append]; omega

theorem attrBody_head (a : Attr) (h : lexAttrBody a = true) : ∃ c t, attrBody a = c :: t ∧ isNameStartC c = true := by
  simp only [lexAttrBody, Bool.and_eq_true] at h
  cases hn : a.name with
  | nil => rw [hn] at h; simp [isName] at h
  | cons c t =>
    refine ⟨c, t ++ renderEq a.eq ++ renderQuoted a.q (renderPieces a.val), ?_, ?_⟩
    · simp [attrBody, hn]
    · rw [hn] at h; exact isName_head h.1.1

theorem parseAtts_render : ∀ (as : List Attr) (fuel : Nat) (ws : Str) (e : Bool) (rest : Str),
    (∀ a ∈ as, lexAttr a = true) → allS ws = true → as.length < fuel →
    parseAtts fuel (renderAttrs as ++ ws ++ tagClose e ++ rest) = .ok ((as, ws, e), rest)
  | [], fuel, ws, e, rest, _, hw, hf => by
    cases fuel with
    | zero => simp at hf
    | succ f =>
      simp only [allS, List.all_eq_true] at hw
      cases e with
      | false =>
        have hs : spanP isSC (ws ++ '>' :: rest) = (ws, '>' :: rest) :=
          spanP_append isSC _ _ hw (by show isSC '>' = false; decide)
        simp only [renderAttrs, tagClose, List.nil_append, List.append_assoc, List.cons_append, Bool.false_eq_true, if_false,
          parseAtts, hs, if_true]
      | true =>
        have hs : spanP isSC (ws ++ '/' :: '>' :: rest) = (ws, '/' :: '>' :: rest) :=
          spanP_append isSC _ _ hw (by show isSC '/' = false; decide)
        have h1 : ('/' : Char) ≠ '>' := by decide
        simp only [renderAttrs, tagClose, List.nil_append, List.append_assoc, List.cons_append, if_true,
          parseAtts, hs, if_neg h1]
  | a :: as, fuel, ws, e, rest, hl, hw, hf => by
    cases fuel with
    | zero => simp at hf
    | succ f =>
      have ha := hl a (List.mem_cons_self ..)
      rw [lexAttr_split] at ha
      simp only [Bool.and_eq_true, Bool.not_eq_true', List.isEmpty_eq_false_iff, allS, List.all_eq_true] at ha
      obtain ⟨⟨hpre, hne⟩, hbody⟩ := ha
      obtain ⟨c, t, hct, hc⟩ := attrBody_head a hbody
      have ih := parseAtts_render as f ws e rest (fun x hx => hl x (List.mem_cons_of_mem _ hx)) hw (by simpa using hf)
      have e1 : renderAttrs (a :: as) ++ ws ++ tagClose e ++ rest =
          a.pre ++ (attrBody a ++ (renderAttrs as ++ ws ++ tagClose e ++ rest)) := by
        simp [renderAttrs, renderAttr_eq, List.append_assoc]
      have hs : spanP isSC (a.pre ++ (attrBody a ++ (renderAttrs as ++ ws ++ tagClose e ++ rest))) =
          (a.pre, attrBody a ++ (renderAttrs as ++ ws ++ tagClose e ++ rest)) := by
        apply spanP_append isSC _ _ hpre
        rw [hct]; exact nameChar_notS c (nameStart_nameChar c hc)
      have hd := nameChar_notDelim c (nameStart_nameChar c hc)
      have n1 : c ≠ '>' := ne_of_notDelim hd (by decide)
      have n2 : c ≠ '/' := ne_of_notDelim hd (by decide)
      have pa := parseAttr_render a (renderAttrs as ++ ws ++ tagClose e ++ rest) hbody
      rw [e1]
      simp only [parseAtts, hs]
      rw [hct] at pa ⊢
      simp only [List.cons_append] at pa ⊢
      simp only [if_neg n1, if_neg n2, if_neg hne, pa, ih]

theorem parseAtts_sound : ∀ (fuel : Nat) (s : Str) (as : List Attr) (ws : Str) (e : Bool) (r : Str),
    parseAtts fuel s = .ok ((as, ws, e), r) →
    s = renderAttrs as ++ ws ++ tagClose e ++ r ∧ (∀ a ∈ as, lexAttr a = true) ∧ allS ws = true
  | 0, s, as, ws, e, r, h => by simp [parseAtts] at h
  | f + 1, s, as, ws, e, r, h => by
    simp only [parseAtts] at h
    have sp := spanP_sound isSC s
    cases h2 : (spanP isSC s).2 with
    | nil => simp [h2] at h
    | cons c t =>
      simp only [h2] at h
      have hallS : allS (spanP isSC s).1 = true := by
        simp only [allS, List.all_eq_true]; exact sp.2.1
      by_cases c1 : c = '>'
      · rw [if_pos c1] at h
        simp only [Except.ok.injEq, Prod.mk.injEq] at h
        obtain ⟨⟨rfl, rfl, rfl⟩, rfl⟩ := h
        refine ⟨?_, by simp, hallS⟩
        have := sp.1; rw [h2, c1] at this
        simpa [renderAttrs, tagClose] using this
      · rw [if_neg c1] at h
        by_cases c2 : c = '/'
        · rw [if_pos c2] at h
          cases t with
          | nil => simp at h
          | cons d t' =>
            simp only at h
            by_cases c3 : d = '>'
            · rw [if_pos c3] at h
              simp only [Except.ok.injEq, Prod.mk.injEq] at h
              obtain ⟨⟨rfl, rfl, rfl⟩, rfl⟩ := h
              refine ⟨?_, by simp, hallS⟩
              have := sp.1; rw [h2, c2, c3] at this
              simpa [renderAttrs, tagClose] using this
            · rw [if_neg c3] at h; cases h
        · rw [if_neg c2] at h
          by_cases c4 : (spanP isSC s).1 = []
          · rw [if_pos c4] at h; cases h
          · rw [if_neg c4] at h
            cases hp : parseAttr (spanP isSC s).1 (c :: t) with
            | error er => simp [hp] at h
            | ok ar =>
              obtain ⟨a, r1⟩ := ar
              simp only [hp] at h
              cases hr : parseAtts f r1 with
              | error er => simp [hr] at h
              | ok res =>
                obtain ⟨⟨as', w', e'⟩, r2⟩ := res
                simp only [hr, Except.ok.injEq, Prod.mk.injEq] at h
                obtain ⟨⟨rfl, rfl, rfl⟩, rfl⟩ := h
                have ih := parseAtts_sound f r1 as' w' e' r2 hr
                have sa := parseAttr_sound _ _ _ _ hp
                refine ⟨?_, ?_, ih.2.2⟩
                · have := sp.1
                  rw [h2, sa.2.1, ih.1, ← sa.1] at this
                  rw [this]; simp [renderAttrs, renderAttr_eq, List.append_assoc]
                · intro x hx
                  rcases List.mem_cons.mp hx with rfl | hx
                  · rw [lexAttr_split, sa.2.2, sa.1, hallS]
                    simp [c4]
                  · exact ih.2.1 x hx

end XV.Lemmas.Xml

namespace XV.Lemmas.Xml
open XV.Spec.Xml XV.Spec.XmlChar

/-! ### tags -/

theorem tagTail_headNot (as : List Attr) (ws : Str) (e : Bool) (rest : Str)
    (hl : ∀ a ∈ as, lexAttr a = true) (hw : allS ws = true) :
    HeadNot isNameCharC (renderAttrs as ++ ws ++ tagClose e ++ rest) := by
  obtain ⟨c, t, hc, hd⟩ := tagClose_head e
  cases as with
  | nil =>
    simp only [renderAttrs, List.nil_append, List.append_assoc]
    simp only [allS, List.all_eq_true] at hw
    apply headNot_append (fun x hx => S_notNameChar x (hw x hx))
    rw [hc]; exact delim_notNameChar c hd
  | cons a as =>
    have ha := hl a (List.mem_cons_self ..)
    rw [lexAttr_split] at ha
    simp only [Bool.and_eq_true, Bool.not_eq_true', List.isEmpty_eq_false_iff, allS, List.all_eq_true] at ha
    cases hp : a.pre with
    | nil => exact absurd hp ha.1.2
    | cons x xs =>
      simp only [renderAttrs, renderAttr_eq, hp, List.cons_append, List.append_assoc]
      exact S_notNameChar x (ha.1.1 x (by rw [hp]; exact List.mem_cons_self ..))

theorem parseTag_render (t : Tag) (e : Bool) (rest : Str) (h : lexTag t = true) :
    parseTag (t.name ++ (renderAttrs t.atts ++ t.ws ++ tagClose e ++ rest)) =
      .ok (if e then .empty t else .stag t, rest) := by
  simp only [lexTag, Bool.and_eq_true, List.all_eq_true] at h
  obtain ⟨⟨hn, ha⟩, hw⟩ := h
  have p1 := parseName_render t.name _ hn (tagTail_headNot t.atts t.ws e rest ha hw)
  have hlen : t.atts.length < (renderAttrs t.atts ++ t.ws ++ tagClose e ++ rest).length := by
    have := renderAttrs_length t.atts ha
    obtain ⟨c, tl, hc, _⟩ := tagClose_head e
    simp only [List.length_append, hc, List.length_cons]; omega
  have p2 := parseAtts_render t.atts _ t.ws e rest ha hw hlen
  simp only [parseTag, p1, p2]

theorem parseTag_sound (s : Str) (tk : Tok) (r : Str) (h : parseTag s = .ok (tk, r)) :
    ∃ t e, tk = (if e then Tok.empty t else Tok.stag t) ∧
      s = t.name ++ (renderAttrs t.atts ++ t.ws ++ tagClose e ++ r) ∧ lexTag t = true := by
  simp only [parseTag] at h
  cases h1 : parseName s with
  | none => simp [h1] at h
  | some nr =>
    obtain ⟨n, r1⟩ := nr
    simp only [h1] at h
    cases h2 : parseAtts r1.length r1 with
    | error er => simp [h2] at h
    | ok res =>
      obtain ⟨⟨as, w, e⟩, r2⟩ := res
      simp only [h2, Except.ok.injEq, Prod.mk.injEq] at h
      obtain ⟨rfl, rfl⟩ := h
      have s1 := parseName_sound _ _ _ h1
      have s2 := parseAtts_sound _ _ _ _ _ _ h2
      refine ⟨⟨n, as, w⟩, e, rfl, ?_, ?_⟩
      · rw [s1.1, s2.1]
      · simp only [lexTag, Bool.and_eq_true, List.all_eq_true]
        exact ⟨⟨s1.2.1, s2.2.1⟩, s2.2.2⟩

theorem parseETag_render (n ws rest : Str) (hn : isName n = true) (hw : allS ws = true) :
    parseETag (n ++ ws ++ '>' :: rest) = .ok (.etag n ws, rest) := by
  simp only [allS, List.all_eq_true] at hw
  have hh : HeadNot isNameCharC (ws ++ '>' :: rest) :=
    headNot_append (fun x hx => S_notNameChar x (hw x hx)) (by show isNameCharC '>' = false; decide)
  have p1 := parseName_render n (ws ++ '>' :: rest) hn hh
  have hs : spanP isSC (ws ++ '>' :: rest) = (ws, '>' :: rest) :=
    spanP_append isSC _ _ hw (by show isSC '>' = false; decide)
  simp only [parseETag, List.append_assoc, p1, hs, if_true]

theorem parseETag_sound (s : Str) (tk : Tok) (r : Str) (h : parseETag s = .ok (tk, r)) :
    ∃ n ws, tk = .etag n ws ∧ s = n ++ ws ++ '>' :: r ∧ isName n = true ∧ allS ws = true := by
  simp only [parseETag] at h
  cases h1 : parseName s with
  | none => simp [h1] at h
  | some nr =>
    obtain ⟨n, r1⟩ := nr
    simp only [h1] at h
    have sp := spanP_sound isSC r1
    cases h2 : (spanP isSC r1).2 with
    | nil => simp [h2] at h
    | cons c t =>
      simp only [h2] at h
      by_cases hc : c = '>'
      · rw [if_pos hc] at h
        simp only [Except.ok.injEq, Prod.mk.injEq] at h
        obtain ⟨rfl, rfl⟩ := h
        have s1 := parseName_sound _ _ _ h1
        refine ⟨n, (spanP isSC r1).1, rfl, ?_, s1.2.1, ?_⟩
        · have := sp.1; rw [h2, hc] at this
          rw [s1.1, List.append_assoc, ← this]
        · simp only [allS, List.all_eq_true]; exact sp.2.1
      · rw [if_neg hc] at h; cases h

/-! ### processing instructions, comments, CDATA sections -/

theorem headNotS_iff (d : Str) : headNotS d = true ↔ HeadNot isSC d := by
  cases d with
  | nil => simp [headNotS, HeadNot]
  | cons c t => simp [headNotS, HeadNot]

theorem parsePI_render (t sp d rest : Str) (h : lexPI t sp d = true) :
    parsePI (t ++ sp ++ d ++ ['?', '>'] ++ rest) = .ok ((t, sp, d), rest) := by
  simp only [lexPI, Bool.and_eq_true] at h
  obtain ⟨⟨⟨hn, hs⟩, hd⟩, he⟩ := h
  simp only [allS, List.all_eq_true] at hs
  cases sp with
  | nil =>
    simp only [List.isEmpty_nil, if_true, List.isEmpty_iff] at hd
    subst hd
    have p1 := parseName_render t ('?' :: '>' :: rest) hn (by show isNameCharC '?' = false; decide)
    simp only [parsePI, List.append_nil, List.append_assoc, List.cons_append, List.nil_append, p1, stripPrefix, if_true]
  | cons x xs =>
    have hx : isSC x = true := hs x (List.mem_cons_self ..)
    simp only [List.isEmpty_cons, Bool.false_eq_true, if_false] at hd
    have p1 := parseName_render t (x :: xs ++ d ++ ['?', '>'] ++ rest) hn (S_notNameChar x hx)
    have hq : ('?' : Char) ≠ x := (ne_of_notDelim (S_notDelim x hx) (by decide)).symm
    have hhd : HeadNot isSC (d ++ ['?', '>'] ++ rest) := by
      cases d with
      | nil => show isSC '?' = false; decide
      | cons y ys => exact (headNotS_iff _).mp hd
    have hsp : spanP isSC (x :: xs ++ (d ++ ['?', '>'] ++ rest)) = (x :: xs, d ++ ['?', '>'] ++ rest) :=
      spanP_append isSC _ _ hs hhd
    have hsc := scanUntil_render ['?', '>'] (by simp) d rest he
    have e1 : t ++ (x :: xs) ++ d ++ ['?', '>'] ++ rest = t ++ (x :: xs ++ d ++ ['?', '>'] ++ rest) := by
      simp [List.append_assoc]
    have e2 : x :: xs ++ d ++ ['?', '>'] ++ rest = x :: xs ++ (d ++ ['?', '>'] ++ rest) := by
      simp [List.append_assoc]
    rw [e1]
    simp only [parsePI, p1]
    rw [e2, hsp]
    simp only [List.cons_append, stripPrefix, if_neg hq, hsc]
    simp

theorem parsePI_sound (s t sp d r : Str) (h : parsePI s = .ok ((t, sp, d), r)) :
    s = t ++ sp ++ d ++ ['?', '>'] ++ r ∧ lexPI t sp d = true := by
  simp only [parsePI] at h
  cases h1 : parseName s with
  | none => simp [h1] at h
  | some nr =>
    obtain ⟨n, r1⟩ := nr
    simp only [h1] at h
    have s1 := parseName_sound _ _ _ h1
    cases h2 : stripPrefix ['?', '>'] r1 with
    | some r' =>
      simp only [h2, Except.ok.injEq, Prod.mk.injEq] at h
      obtain ⟨⟨rfl, rfl, rfl⟩, rfl⟩ := h
      have := stripPrefix_sound _ _ _ h2
      refine ⟨by rw [s1.1, this]; simp, ?_⟩
      simp [lexPI, s1.2.1, allS, noEarly]
    | none =>
      simp only [h2] at h
      by_cases hw : (spanP isSC r1).1 = []
      · rw [if_pos hw] at h; cases h
      · rw [if_neg hw] at h
        cases h3 : scanUntil ['?', '>'] (spanP isSC r1).2 with
        | none => simp [h3] at h
        | some dr =>
          obtain ⟨d', r'⟩ := dr
          simp only [h3, Except.ok.injEq, Prod.mk.injEq] at h
          obtain ⟨⟨rfl, rfl, rfl⟩, rfl⟩ := h
          have sp' := spanP_sound isSC r1
          have sc := scanUntil_sound _ _ _ _ h3
          refine ⟨?_, ?_⟩
          · have e := sp'.1
            rw [sc.1] at e
            generalize (spanP isSC r1).1 = w at e ⊢
            rw [s1.1, e]; simp [List.append_assoc]
          · simp only [lexPI, Bool.and_eq_true]
            refine ⟨⟨⟨s1.2.1, ?_⟩, ?_⟩, sc.2⟩
            · simp only [allS, List.all_eq_true]; exact sp'.2.1
            · have hne : (spanP isSC r1).1.isEmpty = false := by
                cases hh : (spanP isSC r1).1 with
                | nil => exact absurd hh hw
                | cons _ _ => rfl
              rw [hne]
              simp only [Bool.false_eq_true, if_false]
              rw [headNotS_iff]
              have := sp'.2.2
              rw [sc.1] at this
              cases d' with
              | nil => trivial
              | cons y ys => exact this

theorem parseComment_render (b rest : Str) (h : noEarly ['-', '-'] b = true) :
    parseComment (b ++ ['-', '-', '>'] ++ rest) = .ok (b, rest) := by
  have hsc := scanUntil_render ['-', '-'] (by simp) b ('>' :: rest) h
  have e : b ++ ['-', '-', '>'] ++ rest = b ++ ['-', '-'] ++ '>' :: rest := by simp [List.append_assoc]
  rw [e]
  simp only [parseComment, hsc, if_true]

theorem parseComment_sound (s b r : Str) (h : parseComment s = .ok (b, r)) :
    s = b ++ ['-', '-', '>'] ++ r ∧ noEarly ['-', '-'] b = true := by
  simp only [parseComment] at h
  cases h1 : scanUntil ['-', '-'] s with
  | none => simp [h1] at h
  | some br =>
    obtain ⟨b', r1⟩ := br
    simp only [h1] at h
    cases r1 with
    | nil => simp at h
    | cons c r' =>
      simp only at h
      by_cases hc : c = '>'
      · rw [if_pos hc] at h
        simp only [Except.ok.injEq, Prod.mk.injEq] at h
        obtain ⟨rfl, rfl⟩ := h
        have sc := scanUntil_sound _ _ _ _ h1
        exact ⟨by rw [sc.1, hc]; simp [List.append_assoc], sc.2⟩
      · rw [if_neg hc] at h; cases h

end XV.Lemmas.Xml

namespace XV.Lemmas.Xml
open XV.Spec.Xml XV.Spec.XmlChar

/-! ### one token -/

/-- lexical validity of a token of the DOCTYPE-free fragment -/
def lexTok : Tok → Bool
  | .leaf l => lexLeaf l
  | .stag t => lexTag t
  | .etag n w => isName n && allS w
  | .empty t => lexTag t
  | .doctype _ => false

theorem renderTagOpen_eq (t : Tag) (e : Bool) (rest : Str) :
    renderTagOpen t ++ tagClose e ++ rest = '<' :: (t.name ++ (renderAttrs t.atts ++ t.ws ++ tagClose e ++ rest)) := by
  simp [renderTagOpen, List.append_assoc]

theorem name_head_notDelim {n : Str} (h : isName n = true) : ∃ c t, n = c :: t ∧ isDelim c = false := by
  cases n with
  | nil => simp [isName] at h
  | cons c t => exact ⟨c, t, rfl, nameChar_notDelim c (nameStart_nameChar c (isName_head h))⟩

theorem nextTok_tag (t : Tag) (e : Bool) (rest : Str) (h : lexTag t = true) :
    nextTok (renderTagOpen t ++ tagClose e ++ rest) = .ok (if e then .empty t else .stag t, rest) := by
  have hn : isName t.name = true := by
    simp only [lexTag, Bool.and_eq_true] at h; exact h.1.1
  obtain ⟨c, tl, hc, hd⟩ := name_head_notDelim hn
  have p := parseTag_render t e rest h
  rw [renderTagOpen_eq]
  rw [hc] at p ⊢
  simp only [List.cons_append] at p ⊢
  have n1 : c ≠ '!' := ne_of_notDelim hd (by decide)
  have n2 : c ≠ '?' := ne_of_notDelim hd (by decide)
  have n3 : c ≠ '/' := ne_of_notDelim hd (by decide)
  simp only [nextTok, if_true, if_neg n1, if_neg n2, if_neg n3, p]

theorem nextTok_render (tk : Tok) (rest : Str) (h : lexTok tk = true) :
    nextTok (renderTok tk ++ rest) = .ok (tk, rest) := by
  cases tk with
  | doctype d => simp [lexTok] at h
  | stag t =>
    have := nextTok_tag t false rest h
    simpa [renderTok, tagClose, List.append_assoc] using this
  | empty t =>
    have := nextTok_tag t true rest h
    simpa [renderTok, tagClose, List.append_assoc] using this
  | etag n w =>
    simp only [lexTok, Bool.and_eq_true] at h
    have p := parseETag_render n w rest h.1 h.2
    have n1 : ('/' : Char) ≠ '!' := by decide
    have n2 : ('/' : Char) ≠ '?' := by decide
    simp only [renderTok, renderETag, List.cons_append, List.append_assoc, nextTok, if_true, if_neg n1, if_neg n2]
    simpa [List.append_assoc] using p
  | leaf l =>
    cases l with
    | ch c =>
      simp only [lexTok, lexLeaf, Bool.and_eq_true, bne_iff_ne, ne_eq] at h
      simp only [renderTok, renderLeaf, List.cons_append, List.nil_append, nextTok, if_neg h.1, if_neg h.2]
    | cref r =>
      have hr : lexRef (.cref r) = true := h
      have p := parseRef_render (.cref r) rest hr
      have n1 : ('&' : Char) ≠ '<' := by decide
      have e : renderTok (.leaf (.cref r)) = '&' :: refBody (.cref r) := renderPiece_ref (.cref r) hr
      simp only [e, List.cons_append, nextTok, if_neg n1, if_true, p]
    | eref n =>
      have hr : lexRef (.eref n) = true := h
      have p := parseRef_render (.eref n) rest hr
      have n1 : ('&' : Char) ≠ '<' := by decide
      have e : renderTok (.leaf (.eref n)) = '&' :: refBody (.eref n) := renderPiece_ref (.eref n) hr
      simp only [e, List.cons_append, nextTok, if_neg n1, if_true, p]
    | cdata s =>
      simp only [lexTok, lexLeaf] at h
      have hsc := scanUntil_render [']', ']', '>'] (by simp) s rest h
      have e : renderTok (.leaf (.cdata s)) ++ rest =
          '<' :: '!' :: (['[', 'C', 'D', 'A', 'T', 'A', '['] ++ (s ++ [']', ']', '>'] ++ rest)) := by
        simp [renderTok, renderLeaf, List.append_assoc]
      have n2 : stripPrefix ['-', '-'] (['[', 'C', 'D', 'A', 'T', 'A', '['] ++ (s ++ [']', ']', '>'] ++ rest)) = none := by
        simp [stripPrefix]
      rw [e]
      simp only [nextTok, if_true, parseBang, n2, stripPrefix_append, hsc]
    | comment s =>
      simp only [lexTok, lexLeaf] at h
      have p := parseComment_render s rest h
      have e : renderTok (.leaf (.comment s)) ++ rest = '<' :: '!' :: (['-', '-'] ++ (s ++ ['-', '-', '>'] ++ rest)) := by
        simp [renderTok, renderLeaf, List.append_assoc]
      rw [e]
      simp only [nextTok, if_true, parseBang, stripPrefix_append, p]
    | pi t sp d =>
      simp only [lexTok, lexLeaf] at h
      have p := parsePI_render t sp d rest h
      have n1 : ('?' : Char) ≠ '!' := by decide
      have e : renderTok (.leaf (.pi t sp d)) ++ rest = '<' :: '?' :: (t ++ sp ++ d ++ ['?', '>'] ++ rest) := by
        simp [renderTok, renderLeaf, List.append_assoc]
      rw [e]
      simp only [nextTok, if_true, if_neg n1, p]

theorem nextTok_sound (s : Str) (tk : Tok) (r : Str) (h : nextTok s = .ok (tk, r)) (hnd : ∀ d, tk ≠ .doctype d) :
    s = renderTok tk ++ r ∧ lexTok tk = true := by
  cases s with
  | nil => simp [nextTok] at h
  | cons c t =>
    simp only [nextTok] at h
    by_cases c1 : c = '<'
    · rw [if_pos c1] at h
      subst c1
      cases t with
      | nil => simp at h
      | cons d t' =>
        simp only at h
        by_cases d1 : d = '!'
        · rw [if_pos d1] at h
          subst d1
          simp only [parseBang] at h
          cases b1 : stripPrefix ['-', '-'] t' with
          | some r1 =>
            simp only [b1] at h
            cases b2 : parseComment r1 with
            | error e => simp [b2] at h
            | ok br =>
              obtain ⟨b, r2⟩ := br
              simp only [b2, Except.ok.injEq, Prod.mk.injEq] at h
              obtain ⟨rfl, rfl⟩ := h
              have s1 := stripPrefix_sound _ _ _ b1
              have s2 := parseComment_sound _ _ _ b2
              refine ⟨?_, s2.2⟩
              rw [s1, s2.1]; simp [renderTok, renderLeaf, List.append_assoc]
          | none =>
            simp only [b1] at h
            cases b2 : stripPrefix ['[', 'C', 'D', 'A', 'T', 'A', '['] t' with
            | some r1 =>
              simp only [b2] at h
              cases b3 : scanUntil [']', ']', '>'] r1 with
              | none => simp [b3] at h
              | some br =>
                obtain ⟨b, r2⟩ := br
                simp only [b3, Except.ok.injEq, Prod.mk.injEq] at h
                obtain ⟨rfl, rfl⟩ := h
                have s1 := stripPrefix_sound _ _ _ b2
                have s2 := scanUntil_sound _ _ _ _ b3
                refine ⟨?_, s2.2⟩
                rw [s1, s2.1]; simp [renderTok, renderLeaf, List.append_assoc]
            | none =>
              simp only [b2] at h
              cases b3 : stripPrefix ['D', 'O', 'C', 'T', 'Y', 'P', 'E'] t' with
              | none => simp [b3] at h
              | some r1 =>
                simp only [b3] at h
                cases b4 : parseDoctype r1 with
                | error e => simp [b4] at h
                | ok dr =>
                  obtain ⟨dd, r2⟩ := dr
                  simp only [b4, Except.ok.injEq, Prod.mk.injEq] at h
                  exact absurd h.1.symm (hnd dd)
        · rw [if_neg d1] at h
          by_cases d2 : d = '?'
          · rw [if_pos d2] at h
            subst d2
            cases b1 : parsePI t' with
            | error e => simp [b1] at h
            | ok pr =>
              obtain ⟨⟨n, sp, dt⟩, r1⟩ := pr
              simp only [b1, Except.ok.injEq, Prod.mk.injEq] at h
              obtain ⟨rfl, rfl⟩ := h
              have s1 := parsePI_sound _ _ _ _ _ b1
              refine ⟨?_, s1.2⟩
              rw [s1.1]; simp [renderTok, renderLeaf, List.append_assoc]
          · rw [if_neg d2] at h
            by_cases d3 : d = '/'
            · rw [if_pos d3] at h
              subst d3
              obtain ⟨n, ws, rfl, hs, hn, hw⟩ := parseETag_sound _ _ _ h
              refine ⟨?_, by simp [lexTok, hn, hw]⟩
              rw [hs]; simp [renderTok, renderETag, List.append_assoc]
            · rw [if_neg d3] at h
              obtain ⟨tg, e, rfl, hs, hl⟩ := parseTag_sound _ _ _ h
              cases e with
              | true =>
                refine ⟨?_, hl⟩
                rw [hs]; simp [renderTok, renderTagOpen, tagClose, List.append_assoc]
              | false =>
                refine ⟨?_, hl⟩
                rw [hs]; simp [renderTok, renderTagOpen, tagClose, List.append_assoc]
    · rw [if_neg c1] at h
      by_cases c2 : c = '&'
      · rw [if_pos c2] at h
        subst c2
        cases b1 : parseRef t with
        | error e => simp [b1] at h
        | ok pr =>
          obtain ⟨p, r1⟩ := pr
          have s1 := parseRef_sound _ _ _ b1
          cases p with
          | ch x => simp [lexRef] at s1
          | cref rr =>
            simp only [b1, Except.ok.injEq, Prod.mk.injEq] at h
            obtain ⟨rfl, rfl⟩ := h
            refine ⟨?_, s1.2⟩
            have e : renderTok (.leaf (.cref rr)) = '&' :: refBody (.cref rr) := renderPiece_ref (.cref rr) s1.2
            rw [e, s1.1]; rfl
          | eref n =>
            simp only [b1, Except.ok.injEq, Prod.mk.injEq] at h
            obtain ⟨rfl, rfl⟩ := h
            refine ⟨?_, s1.2⟩
            have e : renderTok (.leaf (.eref n)) = '&' :: refBody (.eref n) := renderPiece_ref (.eref n) s1.2
            rw [e, s1.1]; rfl
      · rw [if_neg c2] at h
        simp only [Except.ok.injEq, Prod.mk.injEq] at h
        obtain ⟨rfl, rfl⟩ := h
        exact ⟨rfl, by simp [lexTok, lexLeaf, c1, c2]⟩

/-! ### the token stream -/

theorem renderTok_ne_nil (tk : Tok) : ∃ c t, renderTok tk = c :: t := by
  cases tk with
  | leaf l => cases l <;> simp [renderTok, renderLeaf, renderCharRef, renderEntRef]
  | stag t => simp [renderTok, renderTagOpen]
  | etag n w => simp [renderTok, renderETag]
  | empty t => simp [renderTok, renderTagOpen]
  | doctype d => simp [renderTok, renderDoctype]

theorem renderToks_length (ts : List Tok) : ts.length ≤ (renderToks ts).length := by
  induction ts with
  | nil => simp [renderToks]
  | cons t ts ih =>
    obtain ⟨c, tl, h⟩ := renderTok_ne_nil t
    simp only [renderToks, List.length_cons, List.length_append, h]; omega

theorem tokenize_render : ∀ (ts : List Tok) (fuel : Nat), (∀ t ∈ ts, lexTok t = true) → ts.length < fuel →
    tokenize fuel (renderToks ts) = .ok ts
  | [], fuel, _, hf => by
    cases fuel with
    | zero => simp at hf
    | succ f => simp [renderToks, tokenize]
  | tk :: ts, fuel, hl, hf => by
    cases fuel with
    | zero => simp at hf
    | succ f =>
      have ih := tokenize_render ts f (fun x hx => hl x (List.mem_cons_of_mem _ hx)) (by simpa using hf)
      have p := nextTok_render tk (renderToks ts) (hl tk (List.mem_cons_self ..))
      obtain ⟨c, tl, hc⟩ := renderTok_ne_nil tk
      simp only [renderToks]
      rw [hc] at p ⊢
      simp only [List.cons_append] at p ⊢
      simp only [tokenize, p, ih]

def noDoctypeTok : Tok → Bool
  | .doctype _ => false
  | _ => true

theorem tokenize_sound : ∀ (fuel : Nat) (s : Str) (ts : List Tok), tokenize fuel s = .ok ts →
    (∀ t ∈ ts, noDoctypeTok t = true) → s = renderToks ts ∧ (∀ t ∈ ts, lexTok t = true)
  | 0, s, ts, h, _ => by simp [tokenize] at h
  | f + 1, [], ts, h, _ => by
    simp only [tokenize, Except.ok.injEq] at h
    subst h; simp [renderToks]
  | f + 1, c :: t, ts, h, hnd => by
    simp only [tokenize] at h
    cases h1 : nextTok (c :: t) with
    | error e => simp [h1] at h
    | ok tr =>
      obtain ⟨tk, r⟩ := tr
      simp only [h1] at h
      cases h2 : tokenize f r with
      | error e => simp [h2] at h
      | ok ts' =>
        simp only [h2, Except.ok.injEq] at h
        subst h
        have hk : ∀ d, tk ≠ .doctype d := by
          intro d hd
          have := hnd tk (List.mem_cons_self ..)
          rw [hd] at this; simp [noDoctypeTok] at this
        have s1 := nextTok_sound _ _ _ h1 hk
        have ih := tokenize_sound f r ts' h2 (fun x hx => hnd x (List.mem_cons_of_mem _ hx))
        refine ⟨by rw [s1.1, ih.1]; rfl, ?_⟩
        intro x hx
        rcases List.mem_cons.mp hx with rfl | hx
        · exact s1.2
        · exact ih.2 x hx

end XV.Lemmas.Xml
