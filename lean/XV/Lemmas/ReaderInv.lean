/-
C04/C01 helper lemmas, part 2: the stream, the index invariant, refreshRawBuffer, the
xcodeMoreChars loop and refreshCharBuffer.

`Inv` is the index invariant (shared with C01): fCharIndex ≤ fCharsAvail ≤ kCharBufSize,
fRawBufIndex ≤ fRawBytesAvail ≤ kRawBufSize, tied to the live windows of the model.
`pend r` is everything the reader has still to deliver: its character window followed by the
whole-input reading (`decodeAll`) of the raw window followed by the rest of the stream.
The central facts: `xcodeLoop_spec` (one run of xcodeMoreChars moves a prefix of `pend` from the
byte side to the character side and changes nothing else; it ends without characters only when
nothing is left; it terminates) and `refresh_spec` (refreshCharBuffer preserves `pend`).
-/
import XV.Lemmas.ReaderDec
namespace XV.Lemmas.ReaderInv
open XV.Model.Utf8 XV.Model.Reader XV.Spec.Reader XV.Lemmas.ReaderDec
set_option maxRecDepth 8000

/-! ### The stream -/

/-- `readBytes` returns nothing only at the end of the input (BinInputStream contract). -/
def Clean : List (List Nat) → Prop
  | [] => True
  | c :: cs => (c = [] → cs.flatten = []) ∧ Clean cs

/-- termination measure of the stream -/
def mu (s : List (List Nat)) : Nat := streamBytes s + s.length

theorem streamBytes_cons (c : List Nat) (cs : List (List Nat)) : streamBytes (c :: cs) = c.length + streamBytes cs := by
  simp [streamBytes]

theorem readBytes_nil (n : Nat) : readBytes [] n = ([], []) := rfl
theorem readBytes_cons (c : List Nat) (cs : List (List Nat)) (n : Nat) :
    readBytes (c :: cs) n = if c.length ≤ n then (c, cs) else (c.take n, c.drop n :: cs) := rfl

theorem rb_flat (s : List (List Nat)) (n : Nat) : (readBytes s n).1 ++ (readBytes s n).2.flatten = s.flatten := by
  rcases s with _ | ⟨c, cs⟩
  · rfl
  · rw [readBytes_cons]
    split
    · rfl
    · simp only [List.flatten_cons]
      rw [← List.append_assoc, List.take_append_drop]

theorem rb_len (s : List (List Nat)) (n : Nat) : (readBytes s n).1.length ≤ n := by
  rcases s with _ | ⟨c, cs⟩
  · simp [readBytes_nil]
  · rw [readBytes_cons]
    split
    · assumption
    · simp only [List.length_take]; omega

theorem rb_clean (s : List (List Nat)) (n : Nat) (h : Clean s) : Clean (readBytes s n).2 := by
  rcases s with _ | ⟨c, cs⟩
  · simp [readBytes_nil, Clean]
  · rw [readBytes_cons]
    split
    · exact h.2
    · rename_i hlt
      refine ⟨?_, h.2⟩
      intro hd
      have : (c.drop n).length = 0 := by rw [hd]; rfl
      simp only [List.length_drop] at this
      omega

theorem rb_nil (s : List (List Nat)) (n : Nat) (h : Clean s) (hn : 0 < n) (hg : (readBytes s n).1 = []) :
    s.flatten = [] := by
  rcases s with _ | ⟨c, cs⟩
  · rfl
  · rw [readBytes_cons] at hg
    split at hg
    · simp only at hg
      subst hg
      simp [h.1 rfl]
    · rename_i hlt
      simp only at hg
      have : (c.take n).length = 0 := by rw [hg]; rfl
      simp only [List.length_take] at this
      omega

theorem rb_mu (s : List (List Nat)) (n : Nat) :
    mu (readBytes s n).2 ≤ mu s ∧ ((readBytes s n).1 ≠ [] → mu (readBytes s n).2 < mu s) := by
  rcases s with _ | ⟨c, cs⟩
  · simp [readBytes_nil, mu]
  · rw [readBytes_cons]
    split
    · simp only [mu, streamBytes_cons, List.length_cons]
      refine ⟨by omega, fun _ => by omega⟩
    · rename_i hlt
      simp only [mu, streamBytes_cons, List.length_cons, List.length_drop]
      refine ⟨by omega, ?_⟩
      intro hne
      have : 0 < (c.take n).length := List.length_pos_iff.mpr hne
      simp only [List.length_take] at this
      omega

/-! ### The index invariant -/

structure Inv (r : Reader) : Prop where
  raw_len : r.rawIdx + r.rawWin.length = r.rawAvail
  raw_le : r.rawAvail ≤ r.cfg.rawBufSize
  char_len : r.charIdx + r.charWin.length = r.charsAvail
  char_le : r.charsAvail ≤ r.cfg.charBufSize
  size_len : r.sizeWin.length = r.charWin.length
  fuel_ok : mu r.stream + 2 ≤ r.fuel

/-- the byte side of a reader: only these four fields are touched by refreshRawBuffer/xcodeMoreChars -/
def setRaw (r : Reader) (w : List Nat) (i a : Nat) (st : List (List Nat)) : Reader :=
  { r with rawWin := w, rawIdx := i, rawAvail := a, stream := st }

theorem setRaw_self (r : Reader) : setRaw r r.rawWin r.rawIdx r.rawAvail r.stream = r := rfl
theorem setRaw_setRaw (r : Reader) (w w' : List Nat) (i a i' a' : Nat) (st st' : List (List Nat)) :
    setRaw (setRaw r w i a st) w' i' a' st' = setRaw r w' i' a' st' := rfl

/-- all bytes not yet transcoded -/
def bytes (r : Reader) : List Nat := r.rawWin ++ r.stream.flatten

/-- the decoder in use -/
def encOf (r : Reader) : Enc := r.xcoder.getD r.enc

theorem refreshRaw_eq (r : Reader) : refreshRawBuffer r =
    setRaw r (r.rawWin ++ (readBytes r.stream (r.cfg.rawBufSize - (r.rawAvail - r.rawIdx))).1)
      0 ((readBytes r.stream (r.cfg.rawBufSize - (r.rawAvail - r.rawIdx))).1.length + (r.rawAvail - r.rawIdx))
      (readBytes r.stream (r.cfg.rawBufSize - (r.rawAvail - r.rawIdx))).2 := rfl

theorem refreshRaw_inv (r : Reader) (h : Inv r) : Inv (refreshRawBuffer r) := by
  rw [refreshRaw_eq]
  have hl := rb_len r.stream (r.cfg.rawBufSize - (r.rawAvail - r.rawIdx))
  have hm := (rb_mu r.stream (r.cfg.rawBufSize - (r.rawAvail - r.rawIdx))).1
  have h1 := h.raw_len; have h2 := h.raw_le
  exact ⟨by simp only [setRaw, List.length_append]; omega, by simp only [setRaw]; omega, h.char_len, h.char_le,
    h.size_len, by simp only [setRaw]; have := h.fuel_ok; omega⟩

theorem refreshRaw_bytes (r : Reader) : bytes (refreshRawBuffer r) = bytes r := by
  rw [refreshRaw_eq]
  simp only [bytes, setRaw, List.append_assoc]
  rw [rb_flat]

/-! ### xcodeMoreChars -/

theorem xcodeLoop_spec : ∀ (fuel : Nat) (r : Reader) (maxChars : Nat) (needMore : Bool), Inv r →
    match xcodeLoop fuel r maxChars needMore with
    | .ok c s r' =>
        (∃ w i a st, r' = setRaw r w i a st) ∧ Inv r' ∧ c.length ≤ maxChars ∧ s.length = c.length ∧
        (Clean r.stream → Clean r'.stream) ∧
        decodeAll (encOf r) (bytes r) = (c ++ (decodeAll (encOf r) (bytes r')).1, (decodeAll (encOf r) (bytes r')).2) ∧
        (c = [] → 2 ≤ maxChars → 6 ≤ r.cfg.rawBufSize → Clean r.stream →
          (needMore = true → ∃ c0 s0, decode (encOf r) r.rawWin maxChars = .ok c0 s0 0) →
          decodeAll (encOf r) (bytes r) = ([], .eof))
    | .exc e => 2 ≤ maxChars → 6 ≤ r.cfg.rawBufSize → Clean r.stream →
          (needMore = true → ∃ c0 s0, decode (encOf r) r.rawWin maxChars = .ok c0 s0 0) →
          (decodeAll (encOf r) (bytes r)).2 = .exc e
    | .fuelOut => fuel < mu r.stream + (if needMore then 1 else 2) := by
  intro fuel
  induction fuel with
  | zero =>
    intro r maxChars needMore _
    simp only [xcodeLoop]
    split <;> omega
  | succ fuel ih =>
    intro r maxChars needMore hinv
    have hD := decOK (encOf r)
    unfold xcodeLoop
    simp only []
    generalize hrf : (needMore || r.rawAvail - r.rawIdx == 0 || decide (r.rawAvail - r.rawIdx < r.cfg.lowWater)) = refill
    -- facts about r1 that hold whether or not a refill happened
    have hr1 : ∃ w i a st, (if refill = true then refreshRawBuffer r else r) = setRaw r w i a st := by
      cases refill
      · exact ⟨_, _, _, _, (setRaw_self r).symm⟩
      · exact ⟨_, _, _, _, refreshRaw_eq r⟩
    have hinv1 : Inv (if refill = true then refreshRawBuffer r else r) := by
      cases refill
      · exact hinv
      · exact refreshRaw_inv r hinv
    have hb1 : bytes (if refill = true then refreshRawBuffer r else r) = bytes r := by
      cases refill
      · rfl
      · exact refreshRaw_bytes r
    have hc1 : Clean r.stream → Clean (if refill = true then refreshRawBuffer r else r).stream := by
      cases refill
      · exact id
      · intro h; exact rb_clean _ _ h
    have hm1 : mu (if refill = true then refreshRawBuffer r else r).stream ≤ mu r.stream := by
      cases refill
      · exact Nat.le_refl _
      · exact (rb_mu _ _).1
    generalize hr1def : (if refill = true then refreshRawBuffer r else r) = r1 at *
    have henc1 : encOf r1 = encOf r := by
      obtain ⟨w, i, a, st, e⟩ := hr1; rw [e]; rfl
    have hcfg1 : r1.cfg = r.cfg := by
      obtain ⟨w, i, a, st, e⟩ := hr1; rw [e]; rfl
    by_cases hret0 : (refill && r1.rawAvail == 0) = true
    · -- `return 0`: a refill happened and there is not a single byte
      simp only [hret0, if_true]
      refine ⟨hr1, hinv1, by simp, by simp, hc1, by simp [hb1], ?_⟩
      intro _ hmc hrb hclean hstall
      have hrefill : refill = true := by
        cases refill
        · simp at hret0
        · rfl
      subst hrefill
      simp only [if_true] at hr1def
      subst hr1def
      simp only [Bool.true_and, beq_iff_eq] at hret0
      have hgot_len := rb_len r.stream (r.cfg.rawBufSize - (r.rawAvail - r.rawIdx))
      have hra : (refreshRawBuffer r).rawAvail =
          (readBytes r.stream (r.cfg.rawBufSize - (r.rawAvail - r.rawIdx))).1.length + (r.rawAvail - r.rawIdx) := rfl
      have h1 := hinv.raw_len; have h2 := hinv.raw_le
      rw [hra] at hret0
      have hgot : (readBytes r.stream (r.cfg.rawBufSize - (r.rawAvail - r.rawIdx))).1 = [] :=
        List.eq_nil_of_length_eq_zero (by omega)
      have hw : r.rawWin = [] := List.eq_nil_of_length_eq_zero (by omega)
      have hfl := rb_nil r.stream _ hclean (by omega) hgot
      simp only [bytes, hw, hfl, List.append_nil]
      exact hD.nil
    · simp only [hret0, Bool.false_eq_true, if_false]
      by_cases hthrow : (refill && needMore && r.rawAvail - r.rawIdx == r1.rawAvail - r1.rawIdx) = true
      · -- needMore and the refill added nothing: return 0 when there was no room for a pair, else Trans_BadSrcSeq
        simp only [hthrow, if_true]
        by_cases hsmall : maxChars < 2
        · rw [if_pos hsmall]
          refine ⟨hr1, hinv1, by simp, by simp, hc1, by simp [hb1], ?_⟩
          intro _ hmc; omega
        rw [if_neg hsmall]
        intro hmc hrb hclean hstall
        have hrefill : refill = true := by
          cases refill
          · simp at hthrow
          · rfl
        subst hrefill
        simp only [if_true] at hr1def
        subst hr1def
        simp only [Bool.true_and, Bool.and_eq_true, beq_iff_eq] at hthrow hret0
        obtain ⟨hnm, heq⟩ := hthrow
        have hgot_len := rb_len r.stream (r.cfg.rawBufSize - (r.rawAvail - r.rawIdx))
        have hra : (refreshRawBuffer r).rawAvail =
            (readBytes r.stream (r.cfg.rawBufSize - (r.rawAvail - r.rawIdx))).1.length + (r.rawAvail - r.rawIdx) := rfl
        have hri : (refreshRawBuffer r).rawIdx = 0 := rfl
        have h1 := hinv.raw_len; have h2 := hinv.raw_le
        rw [hra, hri] at heq
        rw [hra] at hret0
        have hgot : (readBytes r.stream (r.cfg.rawBufSize - (r.rawAvail - r.rawIdx))).1 = [] :=
          List.eq_nil_of_length_eq_zero (by omega)
        obtain ⟨c0, s0, hst⟩ := hstall hnm
        obtain ⟨hshort, hA⟩ := hD.stall _ _ _ _ hmc hst
        have hk := maxSeq_le6 (encOf r)
        have hfl := rb_nil r.stream _ hclean (by omega) hgot
        have hwne : r.rawWin ≠ [] := by
          intro hw0
          rw [hw0] at h1
          simp at h1
          rw [hgot] at hret0
          simp at hret0
          omega
        simp only [bytes, hfl, List.append_nil]
        rw [hA hwne]
      · simp only [hthrow, Bool.false_eq_true, if_false]
        cases hdec0 : decode (r1.xcoder.getD r1.enc) r1.rawWin maxChars with
        | exc e =>
          simp only []
          intro _ _ _ _
          have hdec : decode (encOf r) r1.rawWin maxChars = .exc e := by rw [← henc1]; exact hdec0
          have := hD.exc r1.rawWin maxChars e hdec r1.stream.flatten
          rw [← hb1]; exact this
        | ok c s n =>
          simp only []
          have hdec : decode (encOf r) r1.rawWin maxChars = .ok c s n := by rw [← henc1]; exact hdec0
          obtain ⟨hn, hcl, hsl, hprog, hA⟩ := hD.ok _ _ _ _ _ hdec
          by_cases hn0 : (n == 0) = true
          · -- nothing eaten: needMore, go round again
            simp only [hn0, if_true]
            have hn0' : n = 0 := by simpa using hn0
            subst hn0'
            have := ih r1 maxChars true hinv1
            split at this
            · rename_i c' s' r' _
              obtain ⟨⟨w, i, a, st, e⟩, i2, i3, i4, i5, i6, i7⟩ := this
              obtain ⟨w0, i0, a0, st0, e0⟩ := hr1
              refine ⟨⟨w, i, a, st, by rw [e, e0]; rfl⟩, i2, i3, i4, fun h => i5 (hc1 h), ?_, ?_⟩
              · rw [← hb1, ← henc1]; exact i6
              · intro hc hmc hrb hclean _
                rw [← hb1, ← henc1]
                exact i7 hc hmc (by rw [hcfg1]; exact hrb) (hc1 hclean) (fun _ => ⟨c, s, by rw [henc1]; exact hdec⟩)
            · intro hmc hrb hclean _
              rw [← hb1, ← henc1]
              exact this hmc (by rw [hcfg1]; exact hrb) (hc1 hclean) (fun _ => ⟨c, s, by rw [henc1]; exact hdec⟩)
            · simp only [if_true] at this
              cases hnm : needMore
              · simp only [Bool.false_eq_true, if_false]; omega
              · -- needMore: the refill that just happened brought something, so the stream shrank
                simp only [if_true]
                have hrefill : refill = true := by rw [← hrf, hnm]; rfl
                subst hrefill
                simp only [if_true] at hr1def
                subst hr1def
                subst hnm
                have hra : (refreshRawBuffer r).rawAvail =
                    (readBytes r.stream (r.cfg.rawBufSize - (r.rawAvail - r.rawIdx))).1.length + (r.rawAvail - r.rawIdx) := rfl
                have hri : (refreshRawBuffer r).rawIdx = 0 := rfl
                have hne : (readBytes r.stream (r.cfg.rawBufSize - (r.rawAvail - r.rawIdx))).1 ≠ [] := by
                  intro hnil
                  apply hthrow
                  simp only [Bool.true_and, beq_iff_eq]
                  rw [hra, hri, hnil]
                  simp
                have hlt : mu (refreshRawBuffer r).stream < mu r.stream :=
                  (rb_mu r.stream (r.cfg.rawBufSize - (r.rawAvail - r.rawIdx))).2 hne
                omega
          · simp only [hn0, if_false]
            have hn0' : n ≠ 0 := by simpa using hn0
            obtain ⟨w0, i0, a0, st0, e0⟩ := hr1
            have h1 := hinv1.raw_len
            refine ⟨⟨_, _, _, _, by rw [e0]; rfl⟩, ?_, hcl, hsl, hc1, ?_, ?_⟩
            · exact ⟨by simp only [setRaw, List.length_drop]; omega, hinv1.raw_le, hinv1.char_len, hinv1.char_le,
                hinv1.size_len, hinv1.fuel_ok⟩
            · rw [← hb1]
              exact hA r1.stream.flatten
            · intro hc
              have := hprog (by omega)
              rw [hc] at this
              simp at this

theorem xcodeMoreChars_spec (r : Reader) (maxChars : Nat) (hinv : Inv r) :
    match xcodeMoreChars r maxChars with
    | .ok c s r' =>
        (∃ w i a st, r' = setRaw r w i a st) ∧ Inv r' ∧ c.length ≤ maxChars ∧ s.length = c.length ∧
        (Clean r.stream → Clean r'.stream) ∧
        decodeAll (encOf r) (bytes r) = (c ++ (decodeAll (encOf r) (bytes r')).1, (decodeAll (encOf r) (bytes r')).2) ∧
        (c = [] → 2 ≤ maxChars → 6 ≤ r.cfg.rawBufSize → Clean r.stream → decodeAll (encOf r) (bytes r) = ([], .eof))
    | .exc e => 2 ≤ maxChars → 6 ≤ r.cfg.rawBufSize → Clean r.stream → (decodeAll (encOf r) (bytes r)).2 = .exc e
    | .fuelOut => False := by
  have := xcodeLoop_spec r.fuel r maxChars false hinv
  unfold xcodeMoreChars
  split at this
  · obtain ⟨h1, h2, h3, h4, h5, h6, h7⟩ := this
    exact ⟨h1, h2, h3, h4, h5, h6, fun a b c d => h7 a b c d (by simp)⟩
  · exact fun a b c => this a b c (by simp)
  · have := hinv.fuel_ok
    simp at *
    omega

/-! ### refreshCharBuffer -/

/-- everything the reader has still to deliver (before end-of-line normalisation), and how it ends -/
def pend (r : Reader) : List Nat × End :=
  (r.charWin ++ (decodeAll (encOf r) (bytes r)).1, (decodeAll (encOf r) (bytes r)).2)

/-- fields that no buffer operation touches -/
structure Same (r r' : Reader) : Prop where
  cfg : r'.cfg = r.cfg
  nel : r'.nel = r.nel
  external : r'.external = r.external
  pe : r'.pe = r.pe
  line : r'.line = r.line
  col : r'.col = r.col
  enc : encOf r' = encOf r
  fuel : r'.fuel = r.fuel

theorem Same.refl (r : Reader) : Same r r := ⟨rfl, rfl, rfl, rfl, rfl, rfl, rfl, rfl⟩
theorem Same.trans {a b c : Reader} (h1 : Same a b) (h2 : Same b c) : Same a c :=
  ⟨h2.cfg.trans h1.cfg, h2.nel.trans h1.nel, h2.external.trans h1.external, h2.pe.trans h1.pe,
   h2.line.trans h1.line, h2.col.trans h1.col, h2.enc.trans h1.enc, h2.fuel.trans h1.fuel⟩

/-- once fNoMore is set nothing is left -/
def NoMoreOK (r : Reader) : Prop := r.noMore = true → pend r = ([], .eof)

/-- `if (!fTranscoder) fTranscoder = makeNewTranscoderFor(fEncodingStr)` -/
def withX (r : Reader) : Reader := if r.xcoder.isNone then { r with xcoder := some r.enc } else r

theorem withX_encOf (r : Reader) : encOf (withX r) = encOf r := by
  unfold withX encOf
  cases h : r.xcoder <;> simp [h]

theorem withX_same (r : Reader) : Same r (withX r) := by
  refine ⟨?_, ?_, ?_, ?_, ?_, ?_, withX_encOf r, ?_⟩ <;> (unfold withX; split <;> rfl)

theorem withX_inv (r : Reader) (h : Inv r) : Inv (withX r) := by
  unfold withX; split
  · exact ⟨h.raw_len, h.raw_le, h.char_len, h.char_le, h.size_len, h.fuel_ok⟩
  · exact h

theorem withX_fields (r : Reader) : (withX r).charWin = r.charWin ∧ (withX r).sizeWin = r.sizeWin ∧
    (withX r).charIdx = r.charIdx ∧ (withX r).charsAvail = r.charsAvail ∧ (withX r).noMore = r.noMore ∧
    (withX r).stream = r.stream ∧ bytes (withX r) = bytes r ∧ (withX r).sentTrailingSpace = r.sentTrailingSpace := by
  unfold withX; split <;> exact ⟨rfl, rfl, rfl, rfl, rfl, rfl, rfl, rfl⟩

/-- the tail of refreshCharBuffer: append the new characters, PE trailing space, fNoMore -/
def fill (r1 : Reader) (chars sizes : List Nat) (spareChars : Nat) : Reader :=
  let r2 := { r1 with charWin := r1.charWin ++ chars, sizeWin := r1.sizeWin ++ sizes,
                      charsAvail := chars.length + spareChars, charIdx := 0 }
  let r3 := if r2.charsAvail == 0 && r2.pe && !r2.sentTrailingSpace then
              { r2 with charWin := [XV.Gen.ReaderConsts.chSpace], sizeWin := [0], charsAvail := 1, sentTrailingSpace := true }
            else r2
  if r3.charsAvail == 0 then { r3 with noMore := true } else r3

theorem refresh_noMore (r : Reader) (h : r.noMore = true) : refreshCharBuffer r = .ok false r := by
  unfold refreshCharBuffer; simp [h]

theorem refresh_full (r : Reader) (h : r.noMore = false) (hf : r.charsAvail - r.charIdx = r.cfg.charBufSize) :
    refreshCharBuffer r = .ok true r := by
  unfold refreshCharBuffer; simp [h, hf]

theorem refresh_main (r : Reader) (h : r.noMore = false) (hf : r.charsAvail - r.charIdx ≠ r.cfg.charBufSize) :
    refreshCharBuffer r =
      match xcodeMoreChars (withX r) ((withX r).cfg.charBufSize - (r.charsAvail - r.charIdx)) with
      | .fuelOut => .fuelOut
      | .exc e => .exc e
      | .ok chars sizes r1 => .ok ((fill r1 chars sizes (r.charsAvail - r.charIdx)).charsAvail != 0)
                                 (fill r1 chars sizes (r.charsAvail - r.charIdx)) := by
  have h1 : ¬ (r.noMore = true) := by rw [h]; simp
  have h2 : ¬ ((r.charsAvail - r.charIdx == r.cfg.charBufSize) = true) := by simpa using hf
  unfold refreshCharBuffer
  rw [if_neg h1]
  simp only []
  rw [if_neg h2]
  rfl

theorem fill_nope (r1 : Reader) (chars sizes : List Nat) (sp : Nat) (hpe : r1.pe = false) :
    fill r1 chars sizes sp =
      { r1 with charWin := r1.charWin ++ chars, sizeWin := r1.sizeWin ++ sizes, charsAvail := chars.length + sp,
                charIdx := 0, noMore := r1.noMore || (chars.length + sp == 0) } := by
  unfold fill
  simp only [hpe, Bool.and_false, Bool.false_and, Bool.false_eq_true, if_false]
  cases hz : (chars.length + sp == 0)
  · simp only [Bool.false_eq_true, if_false, Bool.or_false]
  · simp only [if_true, Bool.or_true]

theorem refresh_spec (r : Reader) (hinv : Inv r) (hpe : r.pe = false) :
    match refreshCharBuffer r with
    | .ok more r' => Inv r' ∧ Same r r' ∧ (Clean r.stream → Clean r'.stream) ∧ pend r' = pend r ∧
        (more = false → r'.noMore = true) ∧
        (more = true → r.charsAvail ≤ r.charIdx → 0 < r.cfg.charBufSize → r'.charWin ≠ []) ∧
        (2 ≤ r.cfg.charBufSize → 6 ≤ r.cfg.rawBufSize → Clean r.stream → NoMoreOK r → NoMoreOK r')
    | .exc e => 2 ≤ r.cfg.charBufSize - (r.charsAvail - r.charIdx) → 6 ≤ r.cfg.rawBufSize → Clean r.stream →
        (pend r).2 = .exc e
    | .fuelOut => False := by
  by_cases hnm : r.noMore = true
  · rw [refresh_noMore r hnm]
    refine ⟨hinv, Same.refl r, id, rfl, fun _ => hnm, ?_, fun _ _ _ h => h⟩
    intro h; exact absurd h (by decide)
  · have hnm' : r.noMore = false := by cases h : r.noMore <;> simp_all
    by_cases hfull : r.charsAvail - r.charIdx = r.cfg.charBufSize
    · rw [refresh_full r hnm' hfull]
      refine ⟨hinv, Same.refl r, id, rfl, ?_, ?_, fun _ _ _ h => h⟩
      · intro h; exact absurd h (by decide)
      · intro _ hle hpos
        omega
    · rw [refresh_main r hnm' hfull]
      have hx := xcodeMoreChars_spec (withX r) ((withX r).cfg.charBufSize - (r.charsAvail - r.charIdx)) (withX_inv r hinv)
      obtain ⟨f1, f2, f3, f4, f5, f6, f7, f8⟩ := withX_fields r
      have hsx := withX_same r
      have hex := withX_encOf r
      cases hxr : xcodeMoreChars (withX r) ((withX r).cfg.charBufSize - (r.charsAvail - r.charIdx)) with
      | fuelOut => rw [hxr] at hx; exact hx
      | exc e =>
        rw [hxr] at hx
        simp only [] at hx ⊢
        rw [hex, f7] at hx
        intro hroom hrb hclean
        exact hx (by rw [hsx.cfg]; exact hroom) (by rw [hsx.cfg]; exact hrb) (by rw [f6]; exact hclean)
      | ok chars sizes r1 =>
        rw [hxr] at hx
        simp only [] at hx ⊢
        obtain ⟨⟨w, i, a, st, e1⟩, hinv1, hcl, hsl, hclean, hA, hnil⟩ := hx
        have hpe1 : r1.pe = false := by rw [e1]; show (withX r).pe = false; rw [hsx.pe]; exact hpe
        rw [fill_nope r1 chars sizes _ hpe1]
        have hc1 : r1.charWin = r.charWin := by rw [e1]; exact f1
        have hs1 : r1.sizeWin = r.sizeWin := by rw [e1]; exact f2
        have hcfg1 : r1.cfg = r.cfg := by rw [e1]; exact hsx.cfg
        have henc1 : encOf r1 = encOf r := by rw [e1]; exact hex
        have hnm1 : r1.noMore = false := by rw [e1]; show (withX r).noMore = false; rw [f5]; exact hnm'
        have hcl' := hinv.char_len
        have hle' := hinv.char_le
        rw [hex, f7] at hA
        rw [hsx.cfg] at hcl
        refine ⟨?_, ?_, ?_, ?_, ?_, ?_, ?_⟩
        · exact ⟨hinv1.raw_len, hinv1.raw_le,
            by simp only [List.length_append, hc1]; omega,
            by simp only [hcfg1]; omega,
            by simp only [List.length_append, hc1, hs1, hsl, hinv.size_len],
            hinv1.fuel_ok⟩
        · refine ⟨hcfg1, ?_, ?_, ?_, ?_, ?_, henc1, ?_⟩ <;> (rw [e1]; first | exact hsx.nel | exact hsx.external | exact hsx.pe | exact hsx.line | exact hsx.col | exact hsx.fuel)
        · intro h; exact hclean (by rw [f6]; exact h)
        · show (r1.charWin ++ chars ++ (decodeAll (encOf r1) (bytes r1)).1, (decodeAll (encOf r1) (bytes r1)).2) = pend r
          unfold pend
          rw [hA, hc1, henc1, List.append_assoc]
        · intro hm
          have : chars.length + (r.charsAvail - r.charIdx) = 0 := by simpa using hm
          show (r1.noMore || (chars.length + (r.charsAvail - r.charIdx) == 0)) = true
          simp [this]
        · intro hm hle hpos
          have : chars.length + (r.charsAvail - r.charIdx) ≠ 0 := by simpa using hm
          show r1.charWin ++ chars ≠ []
          intro hnil'
          have hch : chars = [] := (List.append_eq_nil_iff.mp hnil').2
          have hl0 : chars.length = 0 := by rw [hch]; rfl
          omega
        · intro h2 h6 hclean0 _
          intro hnm2
          have hz : chars.length + (r.charsAvail - r.charIdx) = 0 := by
            have : (r1.noMore || (chars.length + (r.charsAvail - r.charIdx) == 0)) = true := hnm2
            rw [hnm1] at this
            simpa using this
          have hch : chars = [] := List.eq_nil_of_length_eq_zero (by omega)
          have hwin : r.charWin = [] := List.eq_nil_of_length_eq_zero (by omega)
          have := hnil hch (by rw [hsx.cfg]; omega) (by rw [hsx.cfg]; exact h6) (by rw [f6]; exact hclean0)
          rw [hex, f7] at this
          show (r1.charWin ++ chars ++ (decodeAll (encOf r1) (bytes r1)).1, (decodeAll (encOf r1) (bytes r1)).2) = ([], .eof)
          rw [hch, hc1, hwin, henc1]
          rw [this] at hA
          simp only [hch, List.nil_append] at hA
          have h1 : (decodeAll (encOf r) (bytes r1)).1 = [] := (congrArg Prod.fst hA).symm
          have h2' : (decodeAll (encOf r) (bytes r1)).2 = .eof := (congrArg Prod.snd hA).symm
          simp [h1, h2']

end XV.Lemmas.ReaderInv
