/-
C08 — lemmas behind `expand_preserves` / `convert_preserves`: algebra of occurrence ranges
(`p{a,b} p{c,d} = p{a+c,b+d}`), the unfolding loops of `expandContentModel`, all-group members, and the
bridge to the C07 content-model language (`CM.Lang`) for trees without `All` / `Loop` nodes.  Core Lean only.
-/
import XV.Lemmas.Particle
import XV.Model.Particle
import XV.Lemmas.ContentModel
namespace XV.Lemmas.ParticleExpand
open XV.Spec.Particle XV.Model.Particle XV.Lemmas.Particle

variable {α β : Type} {M : β → α → Prop}

/-- language equivalence of particles -/
def LEq (M : β → α → Prop) (p q : Particle α) : Prop := ∀ w, PLang M p w ↔ PLang M q w

theorem LEq.refl (p : Particle α) : LEq M p p := fun _ => Iff.rfl
theorem LEq.symm {p q : Particle α} (h : LEq M p q) : LEq M q p := fun w => (h w).symm
theorem LEq.trans {p q r : Particle α} (h1 : LEq M p q) (h2 : LEq M q r) : LEq M p r :=
  fun w => (h1 w).trans (h2 w)

theorem seq_congr {p p' q q' : Particle α} (h1 : LEq M p p') (h2 : LEq M q q') : LEq M (.seq p q) (.seq p' q') := by
  intro w
  simp only [seq_inv]
  constructor
  · rintro ⟨u, v, rfl, hu, hv⟩; exact ⟨u, v, rfl, (h1 u).1 hu, (h2 v).1 hv⟩
  · rintro ⟨u, v, rfl, hu, hv⟩; exact ⟨u, v, rfl, (h1 u).2 hu, (h2 v).2 hv⟩

theorem choice_congr {p p' q q' : Particle α} (h1 : LEq M p p') (h2 : LEq M q q') :
    LEq M (.choice p q) (.choice p' q') := by
  intro w; simp only [choice_inv, h1 w, h2 w]

theorem rep_congr {p p' : Particle α} (a : Nat) (b : Option Nat) (h : LEq M p p') : LEq M (.rep a b p) (.rep a b p') := by
  intro w
  simp only [rep_inv]
  constructor
  · rintro ⟨ws, rfl, hall, h1, h2⟩; exact ⟨ws, rfl, fun u hu => (h u).1 (hall u hu), h1, h2⟩
  · rintro ⟨ws, rfl, hall, h1, h2⟩; exact ⟨ws, rfl, fun u hu => (h u).2 (hall u hu), h1, h2⟩

/-- `p{1,1} = p` -/
theorem rep_one (p : Particle α) : LEq M (.rep 1 (some 1) p) p := by
  intro w
  rw [rep_inv]
  constructor
  · rintro ⟨ws, rfl, hall, h1, h2⟩
    have h2' := h2 1 rfl
    match ws, hall, h1, h2' with
    | [u], hall, _, _ => simpa using hall u (by simp)
    | [], _, h1, _ => simp at h1
    | _ :: _ :: _, _, _, h2' => simp at h2'
  · intro h
    exact ⟨[w], by simp, by simpa using h, by simp, by simp⟩

def optAdd : Option Nat → Option Nat → Option Nat
  | some b, some d => some (b + d)
  | _, _ => none

/-- `p{a,b} p{c,d} = p{a+c, b+d}` for non-empty ranges -/
theorem seq_rep_rep (p : Particle α) (a c : Nat) (b d : Option Nat) (hab : rangeOk a b = true) (hcd : rangeOk c d = true) :
    LEq M (.seq (.rep a b p) (.rep c d p)) (.rep (a + c) (optAdd b d) p) := by
  intro w
  rw [seq_inv, rep_inv]
  constructor
  · rintro ⟨u, v, rfl, hu, hv⟩
    obtain ⟨ws1, rfl, hall1, hmin1, hmax1⟩ := rep_inv.1 hu
    obtain ⟨ws2, rfl, hall2, hmin2, hmax2⟩ := rep_inv.1 hv
    refine ⟨ws1 ++ ws2, by simp, ?_, by simp; omega, ?_⟩
    · intro e he
      rcases List.mem_append.1 he with he | he
      · exact hall1 e he
      · exact hall2 e he
    · intro m hm
      cases b with
      | none => simp [optAdd] at hm
      | some b =>
        cases d with
        | none => simp [optAdd] at hm
        | some d =>
          simp [optAdd] at hm
          have := hmax1 b rfl
          have := hmax2 d rfl
          simp; omega
  · rintro ⟨ws, rfl, hall, hmin, hmax⟩
    -- split after k parts, k = max a (n - d)
    let k : Nat := match d with
      | none => a
      | some d => if ws.length - d ≤ a then a else ws.length - d
    have hk1 : a ≤ k := by
      cases d with
      | none => exact Nat.le_refl _
      | some d => simp only [k]; split <;> omega
    have hk2 : ∀ m, b = some m → k ≤ m := by
      intro m hm
      subst hm
      have hab' : a ≤ m := by simpa [rangeOk] using hab
      cases d with
      | none => exact hab'
      | some d =>
        have := hmax (m + d) (by simp [optAdd])
        simp only [k]; split <;> omega
    have hk3 : k ≤ ws.length - c := by
      cases d with
      | none => simp only [k]; omega
      | some d =>
        have hcd' : c ≤ d := by simpa [rangeOk] using hcd
        simp only [k]; split <;> omega
    have hk4 : ∀ m, d = some m → ws.length - k ≤ m := by
      intro m hm
      subst hm
      simp only [k]; split <;> omega
    refine ⟨(ws.take k).flatten, (ws.drop k).flatten, ?_, ?_, ?_⟩
    · rw [← List.flatten_append, List.take_append_drop]
    · refine rep_inv.2 ⟨ws.take k, rfl, fun e he => hall e (List.mem_of_mem_take he), ?_, ?_⟩
      · rw [List.length_take]; omega
      · intro m hm; rw [List.length_take]; have := hk2 m hm; omega
    · refine rep_inv.2 ⟨ws.drop k, rfl, fun e he => hall e (List.mem_of_mem_drop he), ?_, ?_⟩
      · rw [List.length_drop]; omega
      · intro m hm; rw [List.length_drop]; exact hk4 m hm

/-! ### the unfolding loops of `expandContentModel` -/

theorem toParticle_seq (x y : XNode α) : (XNode.bin .Sequence x y).toParticle = .seq x.toParticle y.toParticle := rfl
theorem toParticle_choice (x y : XNode α) : (XNode.bin .Choice x y).toParticle = .choice x.toParticle y.toParticle := rfl
theorem toParticle_unary (t : UnOp) (x : XNode α) :
    (XNode.unary t x).toParticle = .rep t.range.1 t.range.2 x.toParticle := rfl

/-- `for …: retNode = Sequence(saveNode, retNode)` over an unbounded tail -/
theorem iter_front (x : XNode α) (k a : Nat) (base : XNode α)
    (hb : LEq M base.toParticle (.rep a none x.toParticle)) :
    LEq M (iter (fun ret => .bin .Sequence x ret) k base).toParticle (.rep (a + k) none x.toParticle) := by
  induction k generalizing a base with
  | zero => simpa [iter] using hb
  | succ k ih =>
    simp only [iter]
    have h1 : LEq M (XNode.bin .Sequence x base).toParticle (.rep (a + 1) none x.toParticle) := by
      rw [toParticle_seq]
      refine (seq_congr (rep_one _).symm hb).trans ?_
      have := seq_rep_rep (M := M) x.toParticle 1 a (some 1) none (by simp [rangeOk]) (by simp [rangeOk])
      simpa [optAdd, Nat.add_comm] using this
    have := ih (a + 1) _ h1
    simpa [Nat.add_assoc, Nat.add_comm 1 k] using this

/-- `for …: retNode = Sequence(retNode, saveNode)` -/
theorem iter_back_one (x : XNode α) (k a b : Nat) (base : XNode α) (hab : a ≤ b)
    (hb : LEq M base.toParticle (.rep a (some b) x.toParticle)) :
    LEq M (iter (fun ret => .bin .Sequence ret x) k base).toParticle (.rep (a + k) (some (b + k)) x.toParticle) := by
  induction k generalizing a b base with
  | zero => simpa [iter] using hb
  | succ k ih =>
    simp only [iter]
    have h1 : LEq M (XNode.bin .Sequence base x).toParticle (.rep (a + 1) (some (b + 1)) x.toParticle) := by
      rw [toParticle_seq]
      refine (seq_congr hb (rep_one _).symm).trans ?_
      have := seq_rep_rep (M := M) x.toParticle a 1 (some b) (some 1) (by simpa [rangeOk] using hab) (by simp [rangeOk])
      simpa [optAdd] using this
    have := ih (a + 1) (b + 1) _ (by omega) h1
    simpa [Nat.add_assoc, Nat.add_comm 1 k] using this

/-- `for …: retNode = Sequence(retNode, optional)` -/
theorem iter_back_opt (x : XNode α) (k a b : Nat) (base : XNode α) (hab : a ≤ b)
    (hb : LEq M base.toParticle (.rep a (some b) x.toParticle)) :
    LEq M (iter (fun ret => .bin .Sequence ret (.unary .ZeroOrOne x)) k base).toParticle
      (.rep a (some (b + k)) x.toParticle) := by
  induction k generalizing b base with
  | zero => simpa [iter] using hb
  | succ k ih =>
    simp only [iter]
    have h1 : LEq M (XNode.bin .Sequence base (.unary .ZeroOrOne x)).toParticle (.rep a (some (b + 1)) x.toParticle) := by
      rw [toParticle_seq, toParticle_unary]
      refine (seq_congr hb (LEq.refl _)).trans ?_
      have := seq_rep_rep (M := M) x.toParticle a 0 (some b) (some 1) (by simpa [rangeOk] using hab) (by simp [rangeOk])
      simpa [optAdd, UnOp.range] using this
    have := ih (b + 1) _ (by omega) h1
    simpa [Nat.add_assoc, Nat.add_comm 1 k] using this

/-- `ComplexTypeInfo::expandContentModel` preserves the language: the tree it returns for `specNode{min,max}`
    denotes `rep min max` of what `specNode` denotes — for every Particle-Correct range (min ≤ max, max ≥ 1),
    with and without compact syntax. -/
theorem expand_preserves' (x : XNode α) (min : Nat) (max : Option Nat) (compact : Bool) (hocc : occOk min max = true) :
    LEq M (expand x min max compact).toParticle (.rep min max x.toParticle) := by
  unfold expand
  split
  · next h => obtain ⟨rfl, rfl⟩ := h; exact (rep_one _).symm
  split
  · next _ h => obtain ⟨rfl, rfl⟩ := h; exact LEq.refl _
  split
  · next _ _ h => obtain ⟨rfl, rfl⟩ := h; exact LEq.refl _
  split
  · next _ _ _ h => obtain ⟨rfl, rfl⟩ := h; exact LEq.refl _
  split
  · split <;> exact LEq.refl _
  next h11 h01 h0u h1u _ =>
  cases max with
  | none =>
    -- min ≥ 2, unbounded
    have hmin : 2 ≤ min := by
      have : min ≠ 0 := fun h => h0u ⟨h, rfl⟩
      have : min ≠ 1 := fun h => h1u ⟨h, rfl⟩
      omega
    have := iter_front (M := M) x (min - 1) 1 (.unary .OneOrMore x) (by rw [toParticle_unary]; exact LEq.refl _)
    have e : 1 + (min - 1) = min := by omega
    simpa [e] using this
  | some mx =>
    have hle : min ≤ mx ∧ 1 ≤ mx := by simpa [occOk] using hocc
    simp only []
    split
    · next hz =>
      -- min = 0, mx ≥ 2
      subst hz
      have := iter_back_opt (M := M) x (mx - 1) 0 1 (.unary .ZeroOrOne x) (by omega)
        (by rw [toParticle_unary]; exact LEq.refl _)
      have e : 1 + (mx - 1) = mx := by omega
      simpa [e] using this
    · next hz =>
      -- min ≥ 1
      have hret1 : LEq M (if min > 1 then iter (fun ret => XNode.bin .Sequence ret x) (min - 2) (.bin .Sequence x x) else x).toParticle
          (.rep min (some min) x.toParticle) := by
        split
        · next hgt =>
          have hxx : LEq M (XNode.bin .Sequence x x).toParticle (.rep 2 (some 2) x.toParticle) := by
            rw [toParticle_seq]
            refine (seq_congr (rep_one _).symm (rep_one _).symm).trans ?_
            have := seq_rep_rep (M := M) x.toParticle 1 1 (some 1) (some 1) (by simp [rangeOk]) (by simp [rangeOk])
            simpa [optAdd] using this
          have := iter_back_one (M := M) x (min - 2) 2 2 _ (Nat.le_refl _) hxx
          have e : 2 + (min - 2) = min := by omega
          simpa [e] using this
        · next hgt =>
          have : min = 1 := by omega
          subst this
          exact (rep_one _).symm
      split
      · next hc =>
        have hbase : LEq M (XNode.bin .Sequence
            (if min > 1 then iter (fun ret => XNode.bin .Sequence ret x) (min - 2) (.bin .Sequence x x) else x)
            (.unary .ZeroOrOne x)).toParticle (.rep min (some (min + 1)) x.toParticle) := by
          rw [toParticle_seq, toParticle_unary]
          refine (seq_congr hret1 (LEq.refl _)).trans ?_
          have := seq_rep_rep (M := M) x.toParticle min 0 (some min) (some 1) (by simp [rangeOk]) (by simp [rangeOk])
          simpa [optAdd, UnOp.range] using this
        have := iter_back_opt (M := M) x (mx - min - 1) min (min + 1) _ (by omega) hbase
        have e : min + 1 + (mx - min - 1) = mx := by omega
        simpa [e] using this
      · next hc =>
        have : mx = min := by omega
        subst this
        exact hret1

/-! ### all-groups and the whole tree -/

theorem allMembers_convert (compact : Bool) (s : SNode α) (h : s.allShape = true) :
    (convert compact s).allMembers = s.allMembers := by
  induction s with
  | leaf a min max =>
    simp only [SNode.allShape, decide_eq_true_eq] at h
    obtain ⟨rfl, hmin⟩ := h
    have : min = 0 ∨ min = 1 := by omega
    rcases this with rfl | rfl
    · simp [convert, expand, XNode.allMembers, SNode.allMembers]
    · simp [convert, expand, XNode.allMembers, SNode.allMembers]
  | group1 t f min max _ => simp [SNode.allShape] at h
  | group2 t x y min max ihx ihy =>
    cases t with
    | All =>
      simp only [SNode.allShape, decide_eq_true_eq] at h
      obtain ⟨rfl, rfl, hx, hy⟩ := h
      simp [convert, expand, XNode.allMembers, SNode.allMembers, ihx hx, ihy hy]
    | Sequence => simp [SNode.allShape] at h
    | Choice => simp [SNode.allShape] at h

/-- `convertContentSpecTree` preserves the language of every well-formed tree -/
theorem convert_preserves' (compact : Bool) (s : SNode α) (h : s.wf = true) :
    LEq M (convert compact s).toParticle s.toParticle := by
  induction s with
  | leaf a min max =>
    simp only [SNode.wf] at h
    exact expand_preserves' (.leaf a) min max compact h
  | group1 t f min max ih =>
    simp only [SNode.wf, Bool.and_eq_true] at h
    simp only [convert, SNode.toParticle]
    exact (expand_preserves' _ min max compact h.1).trans (rep_congr _ _ (ih h.2))
  | group2 t x y min max ihx ihy =>
    cases t with
    | All =>
      simp only [SNode.wf, Bool.and_eq_true] at h
      simp only [convert, SNode.toParticle]
      refine (expand_preserves' _ min max compact h.1.1).trans ?_
      have : (XNode.bin .All (convert compact x) (convert compact y)).toParticle
          = .all (x.allMembers ++ y.allMembers) := by
        simp [XNode.toParticle, allMembers_convert compact x h.1.2, allMembers_convert compact y h.2]
      rw [this]
      exact LEq.refl _
    | Sequence =>
      simp only [SNode.wf, Bool.and_eq_true] at h
      simp only [convert, SNode.toParticle]
      refine (expand_preserves' _ min max compact h.1.1).trans (rep_congr _ _ ?_)
      rw [toParticle_seq]
      exact seq_congr (ihx h.1.2) (ihy h.2)
    | Choice =>
      simp only [SNode.wf, Bool.and_eq_true] at h
      simp only [convert, SNode.toParticle]
      refine (expand_preserves' _ min max compact h.1.1).trans (rep_congr _ _ ?_)
      rw [toParticle_choice]
      exact choice_congr (ihx h.1.2) (ihy h.2)

/-! ### bridge to the C07 content-model language -/

open XV.Spec.ContentModel in
/-- the C07 content particle of a tree without `All` / `Loop` nodes over leaf ids -/
def toCM : XNode Nat → Option CM
  | .leaf n => some (.leaf n)
  | .unary t x =>
    match toCM x with
    | none => none
    | some c => some (match t with | .ZeroOrOne => .opt c | .ZeroOrMore => .star c | .OneOrMore => .plus c)
  | .bin .Sequence x y =>
    match toCM x, toCM y with
    | some a, some b => some (.seq a b)
    | _, _ => none
  | .bin .Choice x y =>
    match toCM x, toCM y with
    | some a, some b => some (.choice a b)
    | _, _ => none
  | .bin .All _ _ => none
  | .loopRep _ _ _ _ => none

/-- symbolic matching: a child is a leaf id -/
def SymM : Nat → Nat → Prop := fun x a => x = a

open XV.Spec.ContentModel in
theorem star_iff_flatten (c : CM) (w : List Nat) :
    CM.Lang (.star c) w ↔ ∃ ws : List (List Nat), w = ws.flatten ∧ ∀ u, u ∈ ws → CM.Lang c u := by
  constructor
  · intro h
    generalize hc : CM.star c = s at h
    induction h with
    | leaf => cases hc
    | seq => cases hc
    | choiceL => cases hc
    | choiceR => cases hc
    | optNone => cases hc
    | optSome => cases hc
    | starNil => exact ⟨[], rfl, by simp⟩
    | @starCons _ u _ h1 _ _ ih2 =>
      cases hc
      obtain ⟨ws, rfl, hall⟩ := ih2 rfl
      refine ⟨u :: ws, by simp, ?_⟩
      intro u hu
      simp at hu
      rcases hu with rfl | hu
      · exact h1
      · exact hall u hu
    | plusOne => cases hc
    | plusCons => cases hc
  · rintro ⟨ws, rfl, hall⟩
    induction ws with
    | nil => exact .starNil c
    | cons u ws ih =>
      rw [List.flatten_cons]
      exact .starCons (hall u (by simp)) (ih (fun e he => hall e (by simp [he])))

open XV.Spec.ContentModel in
theorem toCM_lang (x : XNode Nat) (c : CM) (h : toCM x = some c) (w : List Nat) :
    CM.Lang c w ↔ PLang SymM x.toParticle w := by
  induction x generalizing c w with
  | leaf n =>
    simp only [toCM, Option.some.injEq] at h
    subst h
    simp only [XNode.toParticle, leaf_inv, SymM]
    constructor
    · intro h; cases h; exact ⟨n, rfl, rfl⟩
    · rintro ⟨y, rfl, rfl⟩; exact .leaf _
  | unary t x ih =>
    simp only [toCM] at h
    cases hx : toCM x with
    | none => rw [hx] at h; cases h
    | some cx =>
      rw [hx] at h
      simp only [Option.some.injEq] at h
      subst h
      rw [toParticle_unary, rep_inv]
      have ihx := ih cx hx
      cases t with
      | ZeroOrOne =>
        simp only [UnOp.range]
        constructor
        · intro h
          cases h with
          | optNone => exact ⟨[], rfl, by simp, by simp, by simp⟩
          | optSome h => exact ⟨[w], by simp, by simpa using (ihx w).1 h, by simp, by simp⟩
        · rintro ⟨ws, rfl, hall, _, hmax⟩
          have := hmax 1 rfl
          match ws, hall, this with
          | [], _, _ => exact .optNone _
          | [u], hall, _ => simpa using CM.Lang.optSome ((ihx u).2 (hall u (by simp)))
          | _ :: _ :: _, _, this => simp at this
      | ZeroOrMore =>
        simp only [UnOp.range]
        rw [star_iff_flatten]
        constructor
        · rintro ⟨ws, rfl, hall⟩
          exact ⟨ws, rfl, fun u hu => (ihx u).1 (hall u hu), by simp, by simp⟩
        · rintro ⟨ws, rfl, hall, _, _⟩
          exact ⟨ws, rfl, fun u hu => (ihx u).2 (hall u hu)⟩
      | OneOrMore =>
        simp only [UnOp.range]
        rw [XV.Lemmas.ContentModel.plus_iff_cat_star]
        constructor
        · rintro ⟨u, v, rfl, hu, hv⟩
          obtain ⟨ws, rfl, hall⟩ := (star_iff_flatten cx v).1 hv
          refine ⟨u :: ws, by simp, ?_, by simp, by simp⟩
          intro e he
          simp at he
          rcases he with rfl | he
          · exact (ihx _).1 hu
          · exact (ihx e).1 (hall e he)
        · rintro ⟨ws, rfl, hall, hmin, _⟩
          match ws, hall, hmin with
          | [], _, hmin => simp at hmin
          | u :: ws', hall, _ =>
            refine ⟨u, ws'.flatten, by simp, (ihx u).2 (hall u (by simp)), ?_⟩
            exact (star_iff_flatten cx _).2 ⟨ws', rfl, fun e he => (ihx e).2 (hall e (by simp [he]))⟩
  | bin t x y ihx ihy =>
    cases t with
    | All => simp [toCM] at h
    | Sequence =>
      simp only [toCM] at h
      cases hx : toCM x with
      | none => rw [hx] at h; simp at h
      | some a =>
        cases hy : toCM y with
        | none => rw [hx, hy] at h; simp at h
        | some b =>
          rw [hx, hy] at h
          simp only [Option.some.injEq] at h
          subst h
          rw [toParticle_seq, seq_inv]
          constructor
          · intro h
            cases h with
            | seq h1 h2 => exact ⟨_, _, rfl, (ihx a hx _).1 h1, (ihy b hy _).1 h2⟩
          · rintro ⟨u, v, rfl, h1, h2⟩
            exact .seq ((ihx a hx u).2 h1) ((ihy b hy v).2 h2)
    | Choice =>
      simp only [toCM] at h
      cases hx : toCM x with
      | none => rw [hx] at h; simp at h
      | some a =>
        cases hy : toCM y with
        | none => rw [hx, hy] at h; simp at h
        | some b =>
          rw [hx, hy] at h
          simp only [Option.some.injEq] at h
          subst h
          rw [toParticle_choice, choice_inv]
          constructor
          · intro h
            cases h with
            | choiceL _ h => exact .inl ((ihx a hx w).1 h)
            | choiceR _ h => exact .inr ((ihy b hy w).1 h)
          · rintro (h | h)
            · exact .choiceL _ ((ihx a hx w).2 h)
            · exact .choiceR _ ((ihy b hy w).2 h)
  | loopRep o mn mx x _ => simp [toCM] at h

end XV.Lemmas.ParticleExpand
