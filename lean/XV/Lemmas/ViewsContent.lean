/-
C14 — helper lemmas for the range content operations: operations that only add nodes (`Ext`), and the invariant of a
clone traversal.
-/
import XV.Lemmas.Views
namespace XV.Lemmas.ViewsContent
open XV.Model.Dom XV.Spec.Dom XV.Model.Views XV.Spec.Views XV.Lemmas.Dom XV.Lemmas.Views

/-- `s'` extends `s0`: every node of `s0` is there, unchanged -/
def Ext (s0 s' : Store) : Prop := s0.size ≤ s'.size ∧ ∀ i, i < s0.size → s'.get i = s0.get i

theorem ext_refl (s : Store) : Ext s s := ⟨Nat.le_refl _, fun _ _ => rfl⟩

theorem ext_trans {a b c : Store} (h1 : Ext a b) (h2 : Ext b c) : Ext a c :=
  ⟨Nat.le_trans h1.1 h2.1, fun i hi => (h2.2 i (Nat.lt_of_lt_of_le hi h1.1)).trans (h1.2 i hi)⟩

theorem size_allocMany (s : Store) (rs : List NodeRec) : (s.allocMany rs).size = s.size + rs.length := by
  simp [Store.allocMany, Store.size]

theorem ext_allocMany (s : Store) (rs : List NodeRec) : Ext s (s.allocMany rs) :=
  ⟨by rw [size_allocMany]; omega, fun i hi => by rw [get_allocMany, if_pos hi]⟩

/-- cloneNode only adds nodes; the copy it returns is one of them -/
theorem cloneOf_ext (s : Store) (n : NodeId) (deep : Bool) :
    Ext s (cloneOf s n deep).1 ∧ ∀ c, (cloneOf s n deep).2 = some c → s.size ≤ c := by
  unfold cloneOf
  cases hn : s.get n with
  | none => exact ⟨ext_refl s, fun c hc => by cases hc⟩
  | some rn =>
    simp only
    unfold cloneInto
    simp only
    refine ⟨ext_allocMany s _, ?_⟩
    intro c hc
    simp only [Option.some.injEq] at hc
    subst hc
    unfold cloneId
    omega

theorem ext_setDataOf_new {s0 s : Store} (h : Ext s0 s) (c : NodeId) (hc : s0.size ≤ c) (d : List Nat) :
    Ext s0 (setDataOf s c d) := by
  refine ⟨by rw [size_setDataOf]; exact h.1, ?_⟩
  intro i hi
  rw [get_setDataOf, h.2 i hi]
  cases s0.get i with
  | none => rfl
  | some r =>
    simp only [Option.map_some]
    have : ¬ i = c := by omega
    rw [if_neg this]

/-- linking new nodes under a new node does not touch the old ones (whose children are old nodes) -/
theorem ext_appendAll_new {s0 s : Store} (hwf : WF s0) (h : Ext s0 s) (c : NodeId) (hc : s0.size ≤ c)
    (ms : List NodeId) (hms : ∀ m, m ∈ ms → s0.size ≤ m) : Ext s0 (appendAll s c ms) := by
  unfold appendAll
  refine ⟨by unfold moveNodes; rw [size_mapNodes]; exact h.1, ?_⟩
  intro i hi
  rw [get_moveNodes, h.2 i hi]
  cases hg : s0.get i with
  | none => rfl
  | some r =>
    simp only [Option.map_some]
    have hic : i ≠ c := by omega
    have hnm : ms.contains i = false := by
      cases hb : ms.contains i with
      | false => rfl
      | true =>
        have := hms i ((contains_iff _ _).mp hb)
        omega
    have hkids : r.children.filter (fun x => !ms.contains x) = r.children := by
      apply List.filter_eq_self.mpr
      intro a ha
      obtain ⟨ra, hra, _⟩ := hwf.childParent i r a hg ha
      have hal := lt_size_of_get s0 a ra hra
      cases hb : ms.contains a with
      | false => rfl
      | true =>
        have := hms a ((contains_iff _ _).mp hb)
        exact absurd (Nat.lt_of_lt_of_le hal this) (Nat.lt_irrefl _)
    rw [if_neg hic, hkids, hnm]
    simp

/-- invariant of a clone traversal that started from `s0` -/
def CloneInv (s0 : Store) (acc : Sel) : Prop := Ext s0 acc.store ∧ ∀ t, t ∈ acc.tops → s0.size ≤ t

theorem selFull_clone_inv {s0 : Store} (acc : Sel) (k : NodeId) (h : CloneInv s0 acc) :
    CloneInv s0 (selFull .clone acc k) := by
  unfold selFull
  simp only
  obtain ⟨he, hc⟩ := cloneOf_ext acc.store k true
  refine ⟨ext_trans h.1 he, ?_⟩
  intro t ht
  simp only [List.mem_append, Option.mem_toList] at ht
  rcases ht with ht | ht
  · exact h.2 t ht
  · exact Nat.le_trans h.1.1 (hc t ht)

theorem selText_clone_inv {s0 : Store} (acc : Sel) (k a b : Nat) (h : CloneInv s0 acc) :
    CloneInv s0 (selText .clone acc k a b) := by
  unfold selText
  simp only
  obtain ⟨he, hc⟩ := cloneOf_ext acc.store k false
  cases hcl : (cloneOf acc.store k false).2 with
  | none => exact ⟨ext_trans h.1 he, h.2⟩
  | some c =>
    simp only
    have hcn : s0.size ≤ c := Nat.le_trans h.1.1 (hc c hcl)
    refine ⟨ext_setDataOf_new (ext_trans h.1 he) c hcn _, ?_⟩
    intro t ht
    simp only [List.mem_append, List.mem_singleton] at ht
    rcases ht with ht | ht
    · exact h.2 t ht
    · exact ht ▸ hcn

theorem foldl_inv {α β : Type} (P : β → Prop) (f : β → α → β) (l : List α) (b : β) (hb : P b)
    (hf : ∀ b a, P b → P (f b a)) : P (l.foldl f b) := by
  induction l generalizing b with
  | nil => exact hb
  | cons a t ih => exact ih (f b a) (hf b a hb)

/-- a clone traversal only adds nodes, and what it returns are new nodes -/
theorem selContent_clone_inv {s0 : Store} (hwf : WF s0) :
    ∀ (f : Nat) (acc : Sel) (n : NodeId) (lo hi : Option (NodeId × Nat)), CloneInv s0 acc →
      CloneInv s0 (selContent .clone f acc n lo hi) := by
  intro f
  induction f with
  | zero => intro acc n lo hi h; exact h
  | succ f ih =>
    intro acc n lo hi h
    unfold selContent
    simp only
    apply foldl_inv (CloneInv s0) _ _ acc h
    intro acc' kj hacc
    obtain ⟨k, j⟩ := kj
    simp only
    generalize (if j = 0 then (lowerCut acc.store n lo).2 else none) = lo'
    generalize (if j = (upperCut acc.store n hi).1 - (lowerCut acc.store n lo).1 - 1 then (upperCut acc.store n hi).2
      else none) = hi'
    split
    · exact selFull_clone_inv acc' k hacc
    · split
      · exact selText_clone_inv acc' k _ _ hacc
      · -- a partially selected node: copy of the node with the copies of the selected part of its content
        have hin := ih { acc' with tops := [] } k lo' hi' ⟨hacc.1, fun t ht => by cases ht⟩
        obtain ⟨he, hc⟩ := cloneOf_ext (selContent .clone f { acc' with tops := [] } k lo' hi').store k false
        cases hcl : (cloneOf (selContent .clone f { acc' with tops := [] } k lo' hi').store k false).2 with
        | none => exact ⟨ext_trans hin.1 he, hacc.2⟩
        | some c =>
          simp only
          have hcn : s0.size ≤ c := Nat.le_trans hin.1.1 (hc c hcl)
          refine ⟨ext_appendAll_new hwf (ext_trans hin.1 he) c hcn _ hin.2, ?_⟩
          intro t ht
          simp only [List.mem_append, List.mem_singleton] at ht
          rcases ht with ht | ht
          · exact hacc.2 t ht
          · exact ht ▸ hcn

end XV.Lemmas.ViewsContent
