/-
C19 (URI part) — lemmas about the RFC 2396 §5.2 Spec (XV.Spec.Uri): dot-segment removal,
and the path functions of the models (XV.Model.Uri) expressed by the Spec's steps.
-/
import XV.Model.Uri
namespace XV.Lemmas.Uri
open XV.Spec.Uri XV.Model.Uri

/-! ### equation lemmas -/

theorem step6c_cons2 (s t : Seg) (r : List Seg) :
    step6c (s :: t :: r) = if s = "." then step6c (t :: r) else s :: step6c (t :: r) := rfl
theorem step6d_cons2 (s t : Seg) (r : List Seg) : step6d (s :: t :: r) = s :: step6d (t :: r) := rfl
theorem step6f_cons3 (s t d : Seg) (r : List Seg) :
    step6f (s :: t :: d :: r) = s :: step6f (t :: d :: r) := rfl
theorem removeLeftmost_cons2 (s d : Seg) (t : List Seg) :
    removeLeftmost (s :: d :: t) =
      if s ≠ ".." ∧ d = ".." ∧ t ≠ [] then some t else (removeLeftmost (d :: t)).map (s :: ·) := rfl

/-! ### 6c, 6d -/

def NoDot (l : List Seg) : Prop := ∀ x ∈ l, x ≠ "."

theorem step6c_ne_nil (s : Seg) (t : List Seg) : step6c (s :: t) ≠ [] := by
  induction t generalizing s with
  | nil => simp [step6c]
  | cons a t ih =>
    rw [step6c_cons2]
    split
    · exact ih a
    · simp

theorem noDot_6d_6c (l : List Seg) : NoDot (step6d (step6c l)) := by
  induction l with
  | nil => simp [step6c, step6d, NoDot]
  | cons s t ih =>
    cases t with
    | nil =>
      simp only [step6c, step6d]
      split <;> simp_all [NoDot]
    | cons a t =>
      rw [step6c_cons2]
      split
      · exact ih
      · rename_i hs
        obtain ⟨x, m, hx⟩ : ∃ x m, step6c (a :: t) = x :: m := by
          cases h : step6c (a :: t) with
          | nil => exact absurd h (step6c_ne_nil a t)
          | cons x m => exact ⟨x, m, rfl⟩
        rw [hx] at ih ⊢
        rw [step6d_cons2]
        intro y hy
        simp only [List.mem_cons] at hy
        rcases hy with rfl | hy
        · exact hs
        · exact ih y (by simpa using hy)

theorem step6c_of_noDot {l : List Seg} (h : NoDot l) : step6c l = l := by
  induction l with
  | nil => rfl
  | cons s t ih =>
    cases t with
    | nil => rfl
    | cons a t =>
      rw [step6c_cons2, if_neg (h s (by simp)), ih (fun x hx => h x (by simp [hx]))]

theorem step6d_of_noDot {l : List Seg} (h : NoDot l) : step6d l = l := by
  induction l with
  | nil => rfl
  | cons s t ih =>
    cases t with
    | nil => simp [step6d, h s (by simp)]
    | cons a t => rw [step6d_cons2, ih (fun x hx => h x (by simp [hx]))]

/-! ### 6e -/

theorem removeLeftmost_length {l l' : List Seg} (h : removeLeftmost l = some l') : l'.length + 2 = l.length := by
  induction l generalizing l' with
  | nil => simp [removeLeftmost] at h
  | cons s t ih =>
    cases t with
    | nil => simp [removeLeftmost] at h
    | cons d t =>
      rw [removeLeftmost_cons2] at h
      split at h
      · cases h; simp
      · cases h2 : removeLeftmost (d :: t) with
        | none => simp [h2] at h
        | some m =>
          simp [h2] at h
          subst h
          have := ih h2
          simp at this ⊢
          omega

theorem removeLeftmost_mem {l l' : List Seg} (h : removeLeftmost l = some l') : ∀ x ∈ l', x ∈ l := by
  induction l generalizing l' with
  | nil => simp [removeLeftmost] at h
  | cons s t ih =>
    cases t with
    | nil => simp [removeLeftmost] at h
    | cons d t =>
      rw [removeLeftmost_cons2] at h
      split at h
      · cases h; intro x hx; simp [hx]
      · cases h2 : removeLeftmost (d :: t) with
        | none => simp [h2] at h
        | some m =>
          simp [h2] at h
          subst h
          intro x hx
          simp only [List.mem_cons] at hx
          rcases hx with rfl | hx
          · simp
          · exact List.mem_cons_of_mem _ (ih h2 x hx)

theorem iterate_mem (n : Nat) (l : List Seg) : ∀ x ∈ iterate n l, x ∈ l := by
  induction n generalizing l with
  | zero => simp [iterate]
  | succ n ih =>
    intro x hx
    simp only [iterate] at hx
    split at hx
    · exact hx
    · rename_i l' h
      exact removeLeftmost_mem h x (ih l' x hx)

theorem iterate_patFree (n : Nat) (l : List Seg) (h : l.length ≤ n) : removeLeftmost (iterate n l) = none := by
  induction n generalizing l with
  | zero =>
    have : l = [] := by cases l <;> simp_all
    subst this; rfl
  | succ n ih =>
    simp only [iterate]
    split
    · assumption
    · rename_i l' h2
      have := removeLeftmost_length h2
      exact ih l' (by omega)

theorem iterate_of_patFree (n : Nat) {l : List Seg} (h : removeLeftmost l = none) : iterate n l = l := by
  cases n with
  | zero => rfl
  | succ n => simp [iterate, h]

theorem step6e_patFree (l : List Seg) : removeLeftmost (step6e l) = none :=
  iterate_patFree _ _ (Nat.le_refl _)

/-! ### 6f -/

theorem step6f_append_pattern (pre : List Seg) {p : Seg} (hp : p ≠ "..") :
    step6f (pre ++ [p, ".."]) = pre ++ [""] := by
  induction pre with
  | nil => simp [step6f, hp]
  | cons x pre ih =>
    cases pre with
    | nil => simp [step6f, hp]
    | cons y pre =>
      obtain ⟨c, m, hc⟩ : ∃ c m, pre ++ [p, ".."] = c :: m := by
        cases pre with
        | nil => exact ⟨_, _, rfl⟩
        | cons c m => exact ⟨_, _, rfl⟩
      have e : x :: y :: pre ++ [p, ".."] = x :: y :: c :: m := by simp [← hc]
      rw [e, step6f_cons3, ← hc]
      have := ih
      simp only [List.cons_append] at this ⊢
      rw [this]

theorem step6f_append_noPattern (pre : List Seg) {p d : Seg} (h : ¬ (p ≠ ".." ∧ d = "..")) :
    step6f (pre ++ [p, d]) = pre ++ [p, d] := by
  induction pre with
  | nil => simp [step6f, h]
  | cons x pre ih =>
    cases pre with
    | nil => simp [step6f, h]
    | cons y pre =>
      obtain ⟨c, m, hc⟩ : ∃ c m, pre ++ [p, d] = c :: m := by
        cases pre with
        | nil => exact ⟨_, _, rfl⟩
        | cons c m => exact ⟨_, _, rfl⟩
      have e : x :: y :: pre ++ [p, d] = x :: y :: c :: m := by simp [← hc]
      rw [e, step6f_cons3, ← hc]
      have := ih
      simp only [List.cons_append] at this ⊢
      rw [this]

/-- the two ways `step6f` can go -/
theorem step6f_cases (l : List Seg) :
    step6f l = l ∨ ∃ pre p, p ≠ ".." ∧ l = pre ++ [p, ".."] ∧ step6f l = pre ++ [""] := by
  rcases List.eq_nil_or_concat l with rfl | ⟨l1, d, rfl⟩
  · left; rfl
  · rcases List.eq_nil_or_concat l1 with rfl | ⟨pre, p, rfl⟩
    · left; rfl
    · by_cases h : p ≠ ".." ∧ d = ".."
      · right
        obtain ⟨hp, rfl⟩ := h
        exact ⟨pre, p, hp, by simp, by simpa using step6f_append_pattern pre hp⟩
      · left
        simpa using step6f_append_noPattern pre h

theorem patFree_append_empty (pre : List Seg) {p : Seg}
    (h : removeLeftmost (pre ++ [p, ".."]) = none) : removeLeftmost (pre ++ [""]) = none := by
  induction pre with
  | nil => rfl
  | cons x pre ih =>
    cases pre with
    | nil => simp [removeLeftmost]
    | cons y pre =>
      simp only [List.cons_append] at h ih ⊢
      rw [removeLeftmost_cons2] at h ⊢
      split at h
      · simp at h
      · rename_i hc
        have h2 : removeLeftmost (y :: (pre ++ [p, ".."])) = none := by
          cases h3 : removeLeftmost (y :: (pre ++ [p, ".."])) with
          | none => rfl
          | some m => simp [h3] at h
        rw [if_neg, ih h2]; rfl
        intro ⟨a, b, _⟩
        exact hc ⟨a, b, by simp⟩

theorem step6f_patFree {l : List Seg} (h : removeLeftmost l = none) : removeLeftmost (step6f l) = none := by
  rcases step6f_cases l with e | ⟨pre, p, _, rfl, e⟩
  · rw [e]; exact h
  · rw [e]; exact patFree_append_empty pre h

theorem step6f_idem (l : List Seg) : step6f (step6f l) = step6f l := by
  rcases step6f_cases l with e | ⟨pre, p, _, rfl, e⟩
  · rw [e, e]
  · rw [e]
    rcases List.eq_nil_or_concat pre with rfl | ⟨q, z, rfl⟩
    · rfl
    · simpa using step6f_append_noPattern q (p := z) (d := "") (by simp)

theorem step6f_mem (l : List Seg) : ∀ x ∈ step6f l, x ∈ l ∨ x = "" := by
  rcases step6f_cases l with e | ⟨pre, p, _, rfl, e⟩
  · rw [e]; intro x hx; exact Or.inl hx
  · rw [e]; intro x hx
    simp only [List.mem_append, List.mem_singleton] at hx
    rcases hx with hx | hx
    · left; simp [hx]
    · right; exact hx

/-! ### idempotence of steps 6c–6f -/

theorem removeDotSegments_idem (l : List Seg) :
    removeDotSegments (removeDotSegments l) = removeDotSegments l := by
  unfold removeDotSegments
  have hnd : NoDot (step6f (step6e (step6d (step6c l)))) := by
    intro x hx
    rcases step6f_mem _ x hx with h | h
    · exact noDot_6d_6c l x (iterate_mem _ _ x h)
    · rw [h]; decide
  have hpf : removeLeftmost (step6f (step6e (step6d (step6c l)))) = none :=
    step6f_patFree (step6e_patFree _)
  rw [step6c_of_noDot hnd, step6d_of_noDot hnd]
  rw [show step6e (step6f (step6e (step6d (step6c l)))) = step6f (step6e (step6d (step6c l))) from
    iterate_of_patFree _ hpf]
  exact step6f_idem _

/-! ### the model's path functions are the Spec's steps -/

theorem removeDotSlashGo_eq (out l : List Seg) : removeDotSlashGo out l = out.reverse ++ step6c l := by
  induction l generalizing out with
  | nil => simp [removeDotSlashGo, step6c]
  | cons s t ih =>
    cases t with
    | nil => simp [removeDotSlashGo, step6c]
    | cons a t =>
      rw [step6c_cons2]
      simp only [removeDotSlashGo]
      split
      · exact ih out
      · rw [ih]; simp

theorem removeDotSlash_eq (l : List Seg) : removeDotSlash l = step6c l := by
  simp [removeDotSlash, removeDotSlashGo_eq]

theorem step6d_eq (l : List Seg) : step6d l = if l.getLast? = some "." then l.dropLast ++ [""] else l := by
  induction l with
  | nil => simp [step6d]
  | cons s t ih =>
    cases t with
    | nil => simp [step6d]
    | cons a t =>
      rw [step6d_cons2, ih]
      simp only [List.getLast?_cons_cons, List.dropLast_cons_cons]
      split <;> simp

theorem trailingDot_eq (l : List Seg) : trailingDot l = step6d l := by
  rw [step6d_eq]; rfl

theorem uri6d_eq (l : List Seg) : uri6d l = step6d l := by
  rw [step6d_eq]; rfl

theorem eq_nil_or_snoc (l : List Seg) : l = [] ∨ ∃ pre d, l = pre ++ [d] := by
  rcases List.eq_nil_or_concat l with rfl | ⟨pre, d, rfl⟩
  · exact Or.inl rfl
  · exact Or.inr ⟨pre, d, by simp⟩

theorem trailingDotDot_eq (l : List Seg) : trailingDotDot l = step6f l := by
  unfold trailingDotDot
  rcases eq_nil_or_snoc l with rfl | ⟨l1, d, rfl⟩
  · rfl
  · rcases eq_nil_or_snoc l1 with rfl | ⟨pre, p, rfl⟩
    · rfl
    · simp only [List.append_assoc, List.cons_append, List.nil_append, List.reverse_append,
        List.reverse_cons, List.reverse_nil]
      by_cases h : p ≠ ".." ∧ d = ".."
      · obtain ⟨hp, rfl⟩ := h
        simp [hp, step6f_append_pattern pre hp]
      · rw [step6f_append_noPattern pre h]
        have : ¬ (d = ".." ∧ p ≠ "..") := fun ⟨a, b⟩ => h ⟨b, a⟩
        simp [this]

theorem uri6f_fix_eq (l : List Seg) : uri6f true l = some (step6f l) := by
  rw [← trailingDotDot_eq]
  unfold uri6f trailingDotDot
  cases l.reverse with
  | nil => rfl
  | cons d r =>
    cases r with
    | nil => simp
    | cons p r => simp only []; split <;> rfl

/-! XMLUri 6c: iterated removal of the leftmost "/./" -/

theorem removeFirstDot_none {l : List Seg} (h : removeFirstDot l = none) : step6c l = l := by
  induction l with
  | nil => rfl
  | cons s t ih =>
    cases t with
    | nil => rfl
    | cons a t =>
      simp only [removeFirstDot] at h
      split at h
      · cases h
      · rename_i hs
        rw [step6c_cons2, if_neg hs, ih (by simpa using h)]

theorem removeFirstDot_some {l l' : List Seg} (h : removeFirstDot l = some l') :
    step6c l' = step6c l ∧ l'.length < l.length := by
  induction l generalizing l' with
  | nil => simp [removeFirstDot] at h
  | cons s t ih =>
    cases t with
    | nil => simp [removeFirstDot] at h
    | cons a t =>
      simp only [removeFirstDot] at h
      split at h
      · rename_i hs
        cases h
        rw [step6c_cons2, if_pos hs]; simp
      · rename_i hs
        cases h2 : removeFirstDot (a :: t) with
        | none => simp [h2] at h
        | some m =>
          simp [h2] at h
          subst h
          obtain ⟨e, hl⟩ := ih h2
          have hm : m ≠ [] := by
            intro hm; subst hm
            exact step6c_ne_nil a t e.symm
          obtain ⟨x, m', rfl⟩ : ∃ x m', m = x :: m' := by
            cases m with
            | nil => exact absurd rfl hm
            | cons x m' => exact ⟨_, _, rfl⟩
          rw [step6c_cons2, step6c_cons2, if_neg hs, if_neg hs, e]
          exact ⟨rfl, by simp only [List.length_cons] at hl ⊢; omega⟩

theorem uri6c_eq (n : Nat) (l : List Seg) (h : l.length ≤ n) : uri6c n l = step6c l := by
  induction n generalizing l with
  | zero =>
    have : l = [] := by cases l <;> simp_all
    subst this; rfl
  | succ n ih =>
    simp only [uri6c]
    split
    · rename_i h2; exact (removeFirstDot_none h2).symm
    · rename_i l' h2
      obtain ⟨e, hl⟩ := removeFirstDot_some h2
      rw [ih l' (by omega), e]

/-! ### the zipper of removeDotDotSlash is the iterated leftmost removal of 6e -/

theorem removeLeftmost_dots (k : Nat) (l : List Seg) :
    removeLeftmost (List.replicate k ".." ++ l) = (removeLeftmost l).map (List.replicate k ".." ++ ·) := by
  induction k with
  | zero => simp
  | succ k ih =>
    rw [List.replicate_succ, List.cons_append]
    cases h : List.replicate k ".." ++ l with
    | nil =>
      have hl : l = [] := by
        cases l with
        | nil => rfl
        | cons a b => simp at h
      subst hl; simp [removeLeftmost]
    | cons d t =>
      rw [removeLeftmost_cons2, if_neg (by simp), ← h, ih]
      cases removeLeftmost l <;> simp

/-- names (no ".."), then "<p>/../" with something behind it: that is the leftmost occurrence -/
theorem removeLeftmost_names_pattern (names : List Seg) (hn : ∀ x ∈ names, x ≠ "..") {p : Seg} (hp : p ≠ "..")
    {r : List Seg} (hr : r ≠ []) :
    removeLeftmost (names ++ p :: ".." :: r) = some (names ++ r) := by
  induction names with
  | nil => simp [removeLeftmost_cons2, hp, hr]
  | cons x ns ih =>
    have ih := ih (fun y hy => hn y (by simp [hy]))
    cases ns with
    | nil =>
      simp only [List.cons_append, List.nil_append] at ih ⊢
      rw [removeLeftmost_cons2, if_neg (by simp [hp]), ih]; rfl
    | cons y ns =>
      simp only [List.cons_append] at ih ⊢
      rw [removeLeftmost_cons2, if_neg (by simp [hn y (by simp)]), ih]; rfl

/-- names (no ".."), possibly a last "..": no occurrence -/
theorem removeLeftmost_names (names : List Seg) (hn : ∀ x ∈ names, x ≠ "..") (tail : List Seg)
    (ht : tail = [] ∨ tail = [".."]) : removeLeftmost (names ++ tail) = none := by
  induction names with
  | nil => rcases ht with rfl | rfl <;> rfl
  | cons x ns ih =>
    have ih := ih (fun y hy => hn y (by simp [hy]))
    cases ns with
    | nil =>
      rcases ht with rfl | rfl
      · rfl
      · simp [removeLeftmost_cons2, removeLeftmost]
    | cons y ns =>
      simp only [List.cons_append] at ih ⊢
      rw [removeLeftmost_cons2, if_neg (by simp [hn y (by simp)]), ih]; rfl

theorem rep_comm (k : Nat) (r : List Seg) :
    List.replicate k ".." ++ ".." :: r = List.replicate (k + 1) ".." ++ r := by
  induction k with
  | zero => rfl
  | succ k ih => rw [List.replicate_succ, List.cons_append, ih]; rfl

theorem zipper_eq (rest : List Seg) : ∀ (k : Nat) (nr : List Seg) (n : Nat), (∀ x ∈ nr, x ≠ "..") →
    rest.length ≤ n →
    iterate n (List.replicate k ".." ++ nr.reverse ++ rest)
      = removeDotDotSlashGo (nr ++ List.replicate k "..") rest := by
  induction rest with
  | nil =>
    intro k nr n hn _
    simp only [removeDotDotSlashGo, List.append_nil, List.reverse_append, List.reverse_replicate]
    apply iterate_of_patFree
    rw [removeLeftmost_dots]
    have := removeLeftmost_names nr.reverse (by simpa using hn) [] (Or.inl rfl)
    simp only [List.append_nil] at this
    rw [this]; rfl
  | cons s r ih =>
    intro k nr n hn hlen
    simp only [removeDotDotSlashGo]
    by_cases hc : s = ".." ∧ r ≠ []
    · obtain ⟨rfl, hr⟩ := hc
      rw [if_pos ⟨rfl, hr⟩]
      cases nr with
      | nil =>
        have := ih (k + 1) [] n (by simp) (by simp at hlen; omega)
        simp only [List.reverse_nil, List.append_nil, List.nil_append] at this ⊢
        rw [rep_comm, this]
        cases k with
        | zero => rfl
        | succ k => simp [List.replicate_succ]
      | cons p nr' =>
        have hp : p ≠ ".." := hn p (by simp)
        simp only [List.cons_append, if_pos hp]
        cases n with
        | zero => simp at hlen
        | succ m =>
          have hrm : removeLeftmost (List.replicate k ".." ++ (p :: nr').reverse ++ ".." :: r)
              = some (List.replicate k ".." ++ nr'.reverse ++ r) := by
            rw [List.append_assoc, removeLeftmost_dots]
            have := removeLeftmost_names_pattern nr'.reverse
              (by intro x hx; exact hn x (by simp at hx; simp [hx])) hp hr
            simp only [List.reverse_cons, List.append_assoc, List.cons_append, List.nil_append]
            rw [this]; simp
          simp only [iterate, hrm]
          exact ih k nr' m (fun x hx => hn x (by simp [hx])) (by simp at hlen; omega)
    · rw [if_neg hc]
      by_cases hs : s = ".."
      · subst hs
        have hr : r = [] := by
          by_cases h : r = []
          · exact h
          · exact absurd ⟨rfl, h⟩ hc
        subst hr
        simp only [removeDotDotSlashGo, List.reverse_cons, List.reverse_append, List.reverse_replicate]
        apply iterate_of_patFree
        rw [List.append_assoc, removeLeftmost_dots,
          removeLeftmost_names nr.reverse (by simpa using hn) [".."] (Or.inr rfl)]
        rfl
      · have := ih k (s :: nr) n (by intro x hx; simp at hx; rcases hx with rfl | hx; exact hs; exact hn x hx)
          (by simp at hlen; omega)
        simpa using this

theorem removeDotDotSlash_eq (l : List Seg) : removeDotDotSlash l = step6e l := by
  have := zipper_eq l 0 [] l.length (by simp) (Nat.le_refl _)
  simpa [removeDotDotSlash, step6e] using this.symm

/-- weavePaths after the fix = steps 6a–6f of the RFC -/
theorem weavePaths_eq (baseSegs relSegs : List Seg) :
    weavePaths baseSegs relSegs = removeDotSegments (merge baseSegs relSegs) := by
  simp [weavePaths, weavePathsWith, removeDotSegments, merge, removeDotSlash_eq, trailingDot_eq,
    removeDotDotSlash_eq, trailingDotDot_eq]

/-! ### XMLURL::conglomerateWithBase (after the fixes) is RFC 2396 §5.2 on `urlDomain` -/

theorem weavePathsWith_true (b r : List Seg) : weavePathsWith true b r = removeDotSegments (merge b r) :=
  weavePaths_eq b r

theorem conglomerate_eq_resolve (base rel : Uri) (hd : urlDomain base rel = true) :
    conglomerate (ofUri base) (ofUri rel) = some (ofUri (resolve base rel)) := by
  obtain ⟨bs, ba, bp, bsegs, bq, bf⟩ := base
  obtain ⟨rs, ra, rp, rsegs, rq, rf⟩ := rel
  cases rs with
  | some s =>
    cases bs <;> cases bsegs <;> cases bp <;>
      simp_all [urlDomain, conglomerate, conglomerateWith, resolve, ofUri, isRelative]
  | none =>
    cases bs with
    | none => simp [urlDomain] at hd
    | some sch =>
    cases bsegs with
    | nil => simp [urlDomain] at hd
    | cons b0 bt =>
    cases bp with
    | false => simp [urlDomain] at hd
    | true =>
    have hba : ba = none ∨ ba = some "" ∨ ∃ a, ba = some a ∧ a ≠ "" := by
      cases ba with
      | none => exact Or.inl rfl
      | some a => by_cases h : a = ""
                  · exact Or.inr (Or.inl (by rw [h]))
                  · exact Or.inr (Or.inr ⟨a, rfl, h⟩)
    have hra : ra = none ∨ ra = some "" ∨ ∃ a, ra = some a ∧ a ≠ "" := by
      cases ra with
      | none => exact Or.inl rfl
      | some a => by_cases h : a = ""
                  · exact Or.inr (Or.inl (by rw [h]))
                  · exact Or.inr (Or.inr ⟨a, rfl, h⟩)
    rcases hba with rfl | rfl | ⟨a, rfl, ha⟩ <;>
    rcases hra with rfl | rfl | ⟨a', rfl, ha'⟩ <;>
    by_cases hf : sch = "file" <;>
    cases rsegs <;> cases rq <;> cases rf <;> cases rp <;>
      simp_all [urlDomain, conglomerate, conglomerateWith, resolve, ofUri, isRelative, hostless, Uri.WF,
        weavePathsWith_true]

/-! ### XMLUri::initialize (after the fixes) is RFC 2396 §5.2 on `uriDomain` -/

theorem uriSteps_eq (n : Nat) (buf : List Seg) (h : buf.length ≤ n) :
    uri6f true (removeDotDotSlash (uri6d (uri6c n buf))) = some (removeDotSegments buf) := by
  rw [uri6c_eq _ _ h, uri6d_eq, removeDotDotSlash_eq, uri6f_fix_eq]; rfl

theorem xmlUriResolve_eq_resolve (base rel : Uri) (hd : uriDomain base rel = true) :
    xmlUriResolve base rel = some (resolve base rel) := by
  obtain ⟨bs, ba, bp, bsegs, bq, bf⟩ := base
  obtain ⟨rs, ra, rp, rsegs, rq, rf⟩ := rel
  cases bp with
  | false => simp [uriDomain] at hd
  | true =>
  cases bsegs with
  | nil => simp [uriDomain] at hd
  | cons b0 bt =>
  cases rs <;> cases ra <;> cases rsegs <;> cases rq <;> cases rf <;> cases rp <;>
    simp_all [uriDomain, xmlUriResolve, xmlUriResolveWith, resolve, Uri.WF, merge]
  all_goals rw [uriSteps_eq _ _ (by simp)]

end XV.Lemmas.Uri
