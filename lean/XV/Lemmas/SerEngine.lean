/- Helper lemmas for C16 (XSerializeEngine model).  Core Lean only. -/
import XV.Model.SerEngine
namespace XV.Lemmas.SerEngine
open XV.Model.SerEngine XV.Gen.SerConsts

set_option maxRecDepth 4000

-- ------------------------------------------------------------------ little-endian
theorem toLE_length (n v : Nat) : (toLE n v).length = n := by
  induction n generalizing v with
  | zero => rfl
  | succ n ih => simp [toLE, ih]

theorem fromLE_toLE (n v : Nat) (h : v < 256 ^ n) : fromLE (toLE n v) = v := by
  induction n generalizing v with
  | zero => simp [toLE, fromLE] at *; omega
  | succ n ih =>
    simp only [toLE, fromLE]
    have h2 : v / 256 < 256 ^ n := by
      rw [Nat.pow_succ] at h
      exact Nat.div_lt_of_lt_mul (by rw [Nat.mul_comm]; exact h)
    rw [ih _ h2]; omega

theorem toLE_bytes (n v : Nat) : ∀ b ∈ toLE n v, b < 256 := by
  induction n generalizing v with
  | zero => simp [toLE]
  | succ n ih =>
    intro b hb
    simp only [toLE, List.mem_cons] at hb
    rcases hb with rfl | hb
    · omega
    · exact ih _ b hb

theorem zeros_length (n : Nat) : (zeros n).length = n := by simp [zeros]

-- ------------------------------------------------------------------ list slicing
theorem prefix_split {α} : ∀ (C A B D : List α), A ++ B = C ++ D → C.length ≤ A.length →
    ∃ r, A = C ++ r ∧ D = r ++ B := by
  intro C
  induction C with
  | nil => intro A B D h _; exact ⟨A, rfl, by simpa using h.symm⟩
  | cons c C ih =>
    intro A B D h hl
    cases A with
    | nil => simp at hl
    | cons a A =>
      simp only [List.cons_append, List.cons.injEq] at h
      obtain ⟨r, h1, h2⟩ := ih A B D h.2 (by simpa using hl)
      exact ⟨r, by rw [h.1, h1]; rfl, h2⟩

theorem drop_take_mid {α} (pre mid post : List α) :
    ((pre ++ mid ++ post).drop pre.length).take mid.length = mid := by
  rw [List.append_assoc, List.drop_left, List.take_left]

theorem drop_take_mid' {α} (pre mid post : List α) (i n : Nat) (hi : i = pre.length) (hn : n = mid.length) :
    ((pre ++ mid ++ post).drop i).take n = mid := by
  subst hi; subst hn; exact drop_take_mid pre mid post


-- ------------------------------------------------------------------ invariants
/-- smallest buffer that can hold any primitive right after a flush, for a buffer starting at address `base` -/
def minBuf (base : Nat) : Nat := alignAdjust base 8 + 8

/-- a well-formed primitive-operator descriptor (what the extracted tables must satisfy) -/
structure DescOK (d : PrimDesc) : Prop where
  xfer : d.xfer = d.adv
  chk : d.chk = d.adv
  size : d.adv = 1 ∨ d.adv = 2 ∨ d.adv = 4 ∨ d.adv = 8
  al : (d.chkAligned = true ∧ d.align = d.adv) ∨ (d.chkAligned = false ∧ d.align = 0)

def WF (s : SBuf) : Prop := s.buf.length ≤ s.bufSize ∧ minBuf s.base ≤ s.bufSize

/-- `F` is a possible final output stream of a store buffer in state `s` -/
def Ext (s : SBuf) (F : List Nat) : Prop :=
  ∃ tail, F = s.out ++ s.buf ++ tail ∧ (s.buf.length + tail.length) % s.bufSize = 0 ∧
    s.bufSize ≤ s.buf.length + tail.length

/-- the load buffer `l`, reading `F`, stands where the store buffer `s` stood when it was writing `F` -/
def Sync (s : SBuf) (l : LBuf) (F : List Nat) : Prop :=
  l.bufSize = s.bufSize ∧ l.base % 8 = s.base % 8 ∧ l.buf.length = s.bufSize ∧
  ((l.cur = s.buf.length ∧ s.out ++ l.buf ++ l.inp = F) ∨
   (s.buf = [] ∧ l.cur = s.bufSize ∧ s.out ++ l.inp = F))

theorem alignAdjust_lt (addr n : Nat) (hn : 0 < n) : alignAdjust addr n < n := by
  unfold alignAdjust
  have := Nat.mod_lt addr hn
  by_cases h : addr % n = 0 <;> simp [h] <;> omega

theorem need_eq (d : PrimDesc) (h : DescOK d) (addr : Nat) : needOf d addr = padOf d addr + d.adv := by
  unfold needOf padOf
  rcases h.al with ⟨h1, h2⟩ | ⟨h1, h2⟩
  · have : d.adv ≠ 0 := by rcases h.size with s | s | s | s <;> omega
    simp [h1, h.chk, h2, this]
  · simp [h1, h.chk, h2]

theorem pad_after_flush (d : PrimDesc) (h : DescOK d) (base : Nat) : padOf d base + d.adv ≤ minBuf base := by
  unfold padOf minBuf alignAdjust
  rcases h.al with ⟨_, h2⟩ | ⟨_, h2⟩
  · rcases h.size with s | s | s | s <;> simp only [h2, s] <;> (repeat' split) <;> simp_all <;> omega
  · simp [h2]; rcases h.size with s | s | s | s <;> (repeat' split) <;> omega

theorem pad_congr (d : PrimDesc) (h : DescOK d) (b1 b2 c : Nat) (hb : b1 % 8 = b2 % 8) :
    padOf d (b1 + c) = padOf d (b2 + c) := by
  unfold padOf alignAdjust
  rcases h.al with ⟨_, h2⟩ | ⟨_, h2⟩
  · rcases h.size with s | s | s | s <;> simp only [h2, s] <;>
      (have e : (b1 + c) % d.adv = (b2 + c) % d.adv := by rw [s]; omega) <;> simp only [s] at e <;> rw [e]
  · simp [h2]

theorem bytes_of (d : PrimDesc) (h : DescOK d) (v : Nat) :
    (toLE d.xfer v ++ zeros (d.adv - d.xfer)).take d.adv = toLE d.adv v := by
  rw [h.xfer]; simp [zeros, List.take_of_length_le, toLE_length]


-- ------------------------------------------------------------------ primitive operators
theorem putPrim_noflush (s : SBuf) (d : PrimDesc) (v : Nat) (h : DescOK d)
    (hfit : s.buf.length + (padOf d (s.base + s.buf.length) + d.adv) ≤ s.bufSize) :
    s.putPrim d v = { s with buf := s.buf ++ zeros (padOf d (s.base + s.buf.length)) ++ toLE d.adv v } := by
  unfold SBuf.putPrim SBuf.checkAndFlush
  rw [need_eq d h]
  have : ¬ (s.buf.length + (padOf d (s.base + s.buf.length) + d.adv) > s.bufSize) := by omega
  simp only [this, if_false, bytes_of d h]

theorem putPrim_flush (s : SBuf) (d : PrimDesc) (v : Nat) (h : DescOK d)
    (hfit : s.buf.length + (padOf d (s.base + s.buf.length) + d.adv) > s.bufSize) :
    s.putPrim d v = { s with out := s.out ++ s.buf ++ zeros (s.bufSize - s.buf.length),
                             buf := zeros (padOf d s.base) ++ toLE d.adv v } := by
  unfold SBuf.putPrim SBuf.checkAndFlush
  rw [need_eq d h]
  simp only [hfit, if_true, bytes_of d h, SBuf.flush, List.length_nil, Nat.add_zero, List.nil_append]

theorem getPrim_nofill (l : LBuf) (d : PrimDesc) (h : DescOK d)
    (hfit : l.cur + (padOf d (l.base + l.cur) + d.adv) ≤ l.buf.length) :
    l.getPrim d = .ok (fromLE ((l.buf.drop (l.cur + padOf d (l.base + l.cur))).take d.adv),
                       { l with cur := l.cur + padOf d (l.base + l.cur) + d.adv }) := by
  unfold LBuf.getPrim LBuf.checkAndFill
  rw [need_eq d h]
  have : ¬ (l.cur + (padOf d (l.base + l.cur) + d.adv) > l.buf.length) := by omega
  simp only [this, if_false, h.xfer]
  rfl

theorem getPrim_fill (l : LBuf) (d : PrimDesc) (h : DescOK d)
    (hfit : l.cur + (padOf d (l.base + l.cur) + d.adv) > l.buf.length) (hin : l.bufSize ≤ l.inp.length) :
    l.getPrim d = .ok (fromLE (((l.inp.take l.bufSize).drop (padOf d l.base)).take d.adv),
                       { l with buf := l.inp.take l.bufSize, inp := l.inp.drop l.bufSize,
                                cur := padOf d l.base + d.adv }) := by
  unfold LBuf.getPrim LBuf.checkAndFill LBuf.fill
  rw [need_eq d h]
  have : ¬ (l.inp.length < l.bufSize) := by omega
  simp only [hfit, if_true, this, if_false, h.xfer]
  simp [bind, Except.bind]


theorem get_after_fill (l : LBuf) (d : PrimDesc) (hd : DescOK d) (v : Nat) (hv : v < 256 ^ d.adv) (tail : List Nat)
    (hinp : l.inp = zeros (padOf d l.base) ++ toLE d.adv v ++ tail)
    (hB : l.bufSize ≤ l.inp.length) (hfit : padOf d l.base + d.adv ≤ l.bufSize)
    (hneed : l.cur + (padOf d (l.base + l.cur) + d.adv) > l.buf.length) :
    l.getPrim d = .ok (v, { l with buf := l.inp.take l.bufSize, inp := l.inp.drop l.bufSize,
                                   cur := padOf d l.base + d.adv }) := by
  rw [getPrim_fill l d hd hneed hB]
  have hsplit : ∃ r, l.inp.take l.bufSize = zeros (padOf d l.base) ++ toLE d.adv v ++ r := by
    have h0 : l.inp.take l.bufSize ++ l.inp.drop l.bufSize = (zeros (padOf d l.base) ++ toLE d.adv v) ++ tail := by
      rw [List.take_append_drop]; exact hinp
    obtain ⟨r, h1, _⟩ := prefix_split _ _ _ _ h0 (by
      simp only [List.length_append, zeros_length, toLE_length, List.length_take]; omega)
    exact ⟨r, h1⟩
  obtain ⟨r, hr⟩ := hsplit
  rw [hr, drop_take_mid' _ _ _ _ _ (zeros_length _).symm (toLE_length _ _).symm]
  rw [fromLE_toLE _ _ hv]

theorem tail_unique {o b t1 X F : List Nat} (h : F = o ++ b ++ t1) (h2 : o ++ X = F) : X = b ++ t1 := by
  rw [h, List.append_assoc] at h2
  exact List.append_cancel_left h2

theorem rt_prim (s : SBuf) (l : LBuf) (F : List Nat) (d : PrimDesc) (v : Nat) (hd : DescOK d)
    (hv : v < 256 ^ d.adv) (hwf : WF s) (hs : Sync s l F) (he : Ext (s.putPrim d v) F) :
    ∃ l', l.getPrim d = .ok (v, l') ∧ Sync (s.putPrim d v) l' F := by
  obtain ⟨hB, hbase, hlen, hpos⟩ := hs
  obtain ⟨hbuf, hmin⟩ := hwf
  have hpad0 := pad_after_flush d hd s.base
  have hpadl0 : padOf d l.base = padOf d s.base := by
    have := pad_congr d hd l.base s.base 0 hbase; simpa using this
  by_cases hfit : s.buf.length + (padOf d (s.base + s.buf.length) + d.adv) ≤ s.bufSize
  · -- the store does not flush
    rw [putPrim_noflush s d v hd hfit] at he ⊢
    obtain ⟨tail, hF, hmod, hge⟩ := he
    simp only at hF hmod hge
    rcases hpos with ⟨hcur, hFl⟩ | ⟨hnil, hcur, hFl⟩
    · have hX := tail_unique hF (X := l.buf ++ l.inp) (by simpa [List.append_assoc] using hFl)
      obtain ⟨r, hr, _⟩ := prefix_split _ _ _ _ hX (by
        simp only [List.length_append, zeros_length, toLE_length]; omega)
      have hpadl : padOf d (l.base + l.cur) = padOf d (s.base + s.buf.length) := by
        rw [hcur]; exact pad_congr d hd _ _ _ hbase
      have hg := getPrim_nofill l d hd (by rw [hpadl, hcur, hlen]; exact hfit)
      have hval : fromLE ((l.buf.drop (l.cur + padOf d (l.base + l.cur))).take d.adv) = v := by
        rw [hr, hpadl, hcur]
        rw [drop_take_mid' (s.buf ++ zeros (padOf d (s.base + s.buf.length))) (toLE d.adv v) r _ _
              (by simp [zeros_length]) (toLE_length _ _).symm]
        exact fromLE_toLE _ _ hv
      rw [hval] at hg
      refine ⟨_, hg, hB, hbase, hlen, Or.inl ⟨?_, hFl⟩⟩
      show l.cur + padOf d (l.base + l.cur) + d.adv = _
      rw [hpadl, hcur]; simp only [List.length_append, zeros_length, toLE_length]
    · rw [hnil] at hF hge hfit
      simp only [List.nil_append, List.length_nil, Nat.add_zero, Nat.zero_add, List.length_append, zeros_length,
        toLE_length] at hF hge hfit
      have hX : l.inp = zeros (padOf d l.base) ++ toLE d.adv v ++ tail := by
        have := tail_unique (o := s.out) (b := zeros (padOf d s.base) ++ toLE d.adv v) (X := l.inp) hF hFl
        rw [this, hpadl0]
      have hBl : l.bufSize ≤ l.inp.length := by
        rw [hX, hB, hpadl0]; simp only [List.length_append, zeros_length, toLE_length]; exact hge
      have hg := get_after_fill l d hd v hv tail hX hBl (by rw [hB, hpadl0]; omega) (by
        have := hd.size; rw [hcur, hlen]; omega)
      refine ⟨_, hg, hB, hbase, ?_, Or.inl ⟨?_, ?_⟩⟩
      · simp only [List.length_take]; omega
      · simp only [hnil, List.nil_append, List.length_append, zeros_length, toLE_length, List.length_nil,
          Nat.add_zero, hpadl0]
      · show s.out ++ l.inp.take l.bufSize ++ l.inp.drop l.bufSize = F
        rw [List.append_assoc, List.take_append_drop]; exact hFl
  · -- the store flushes
    have hfit' : s.buf.length + (padOf d (s.base + s.buf.length) + d.adv) > s.bufSize := by omega
    rw [putPrim_flush s d v hd hfit'] at he ⊢
    obtain ⟨tail, hF, hmod, hge⟩ := he
    simp only at hF hmod hge
    rcases hpos with ⟨hcur, hFl⟩ | ⟨hnil, hcur, hFl⟩
    · have hX := tail_unique (o := s.out) (b := s.buf ++ zeros (s.bufSize - s.buf.length))
          (t1 := zeros (padOf d s.base) ++ toLE d.adv v ++ tail) (X := l.buf ++ l.inp) (F := F)
          (by rw [hF]; simp [List.append_assoc]) (by simpa [List.append_assoc] using hFl)
      obtain ⟨r, hr, hD⟩ := prefix_split _ _ _ _ hX (by
        simp only [List.length_append, zeros_length]; omega)
      have hr0 : r = [] := by
        have : l.buf.length = (s.buf ++ zeros (s.bufSize - s.buf.length) ++ r).length := by rw [← hr]
        simp only [List.length_append, zeros_length] at this
        exact List.eq_nil_of_length_eq_zero (by omega)
      subst hr0
      simp only [List.nil_append, List.append_nil] at hD hr
      have hX2 : l.inp = zeros (padOf d l.base) ++ toLE d.adv v ++ tail := by rw [hpadl0]; exact hD.symm
      have hBl : l.bufSize ≤ l.inp.length := by
        rw [hX2, hB, hpadl0]; simp only [List.length_append, zeros_length, toLE_length] at hge ⊢; omega
      have hpadl : padOf d (l.base + l.cur) = padOf d (s.base + s.buf.length) := by
        rw [hcur]; exact pad_congr d hd _ _ _ hbase
      have hg := get_after_fill l d hd v hv tail hX2 hBl (by rw [hB, hpadl0]; omega) (by
        rw [hpadl, hcur, hlen]; exact hfit')
      refine ⟨_, hg, hB, hbase, ?_, Or.inl ⟨?_, ?_⟩⟩
      · simp only [List.length_take]; omega
      · simp only [List.length_append, zeros_length, toLE_length, hpadl0]
      · show s.out ++ s.buf ++ zeros (s.bufSize - s.buf.length) ++ l.inp.take l.bufSize ++ l.inp.drop l.bufSize = F
        rw [List.append_assoc _ (l.inp.take _), List.take_append_drop, hF, hX2, hpadl0]
        simp [List.append_assoc]
    · exfalso
      rw [hnil] at hfit'
      have := pad_after_flush d hd (s.base + ([] : List Nat).length)
      simp only [List.length_nil, Nat.add_zero, Nat.zero_add] at this hfit'
      omega


-- ------------------------------------------------------------------ steps
/-- `s'` is reachable from `s` by store operations: constants kept, still well formed, and every final stream of `s'`
is a final stream of `s` -/
def Step (s s' : SBuf) : Prop :=
  s'.bufSize = s.bufSize ∧ s'.base = s.base ∧ WF s' ∧ ∀ F, Ext s' F → Ext s F

theorem Step.refl (s : SBuf) (h : WF s) : Step s s := ⟨rfl, rfl, h, fun _ h => h⟩

theorem Step.trans {a b c : SBuf} (h1 : Step a b) (h2 : Step b c) : Step a c :=
  ⟨h2.1.trans h1.1, h2.2.1.trans h1.2.1, h2.2.2.1, fun F h => h1.2.2.2 F (h2.2.2.2 F h)⟩

theorem bufSize_pos {s : SBuf} (h : WF s) : 0 < s.bufSize := by
  have := h.2; unfold minBuf at this; omega

theorem add_mod_self_left' (B X : Nat) (h : X % B = 0) : (B + X) % B = 0 := by
  rw [Nat.add_mod_left]; exact h

theorem step_prim (s : SBuf) (d : PrimDesc) (v : Nat) (hd : DescOK d) (hwf : WF s) : Step s (s.putPrim d v) := by
  obtain ⟨hbuf, hmin⟩ := hwf
  have hpad0 := pad_after_flush d hd s.base
  by_cases hfit : s.buf.length + (padOf d (s.base + s.buf.length) + d.adv) ≤ s.bufSize
  · rw [putPrim_noflush s d v hd hfit]
    refine ⟨rfl, rfl, ⟨?_, hmin⟩, ?_⟩
    · simp only [List.length_append, zeros_length, toLE_length]; omega
    · rintro F ⟨tail, hF, hmod, hge⟩
      simp only [List.length_append, zeros_length, toLE_length] at hF hmod hge
      refine ⟨zeros (padOf d (s.base + s.buf.length)) ++ toLE d.adv v ++ tail, ?_, ?_, ?_⟩
      · rw [hF]; simp [List.append_assoc]
      · simp only [List.length_append, zeros_length, toLE_length]
        rw [show s.buf.length + (padOf d (s.base + s.buf.length) + d.adv + tail.length)
              = s.buf.length + padOf d (s.base + s.buf.length) + d.adv + tail.length by omega]
        exact hmod
      · simp only [List.length_append, zeros_length, toLE_length]; omega
  · have hfit' : s.buf.length + (padOf d (s.base + s.buf.length) + d.adv) > s.bufSize := by omega
    rw [putPrim_flush s d v hd hfit']
    refine ⟨rfl, rfl, ⟨?_, hmin⟩, ?_⟩
    · simp only [List.length_append, zeros_length, toLE_length]; omega
    · rintro F ⟨tail, hF, hmod, hge⟩
      simp only [List.length_append, zeros_length, toLE_length] at hF hmod hge
      refine ⟨zeros (s.bufSize - s.buf.length) ++ (zeros (padOf d s.base) ++ toLE d.adv v) ++ tail, ?_, ?_, ?_⟩
      · rw [hF]; simp [List.append_assoc]
      · simp only [List.length_append, zeros_length, toLE_length]
        rw [show s.buf.length + (s.bufSize - s.buf.length + (padOf d s.base + d.adv) + tail.length)
              = s.bufSize + (padOf d s.base + d.adv + tail.length) by omega]
        exact add_mod_self_left' _ _ hmod
      · simp only [List.length_append, zeros_length, toLE_length]; omega


-- ------------------------------------------------------------------ raw bytes
theorem step_flush_full (s : SBuf) (blk : List Nat) (hwf : WF s) (hnil : s.buf = []) (hb : blk.length = s.bufSize) :
    Step s ({ s with buf := blk } : SBuf).flush ∧ (({ s with buf := blk } : SBuf).flush).buf = [] ∧
      (({ s with buf := blk } : SBuf).flush).out = s.out ++ blk := by
  have hpos := bufSize_pos hwf
  refine ⟨⟨rfl, rfl, ⟨by simp [SBuf.flush], hwf.2⟩, ?_⟩, rfl, by simp [SBuf.flush, hb, zeros]⟩
  rintro F ⟨tail, hF, hmod, hge⟩
  simp only [SBuf.flush, hb, Nat.sub_self, List.length_nil, Nat.zero_add] at hF hmod hge
  refine ⟨blk ++ tail, ?_, ?_, ?_⟩
  · rw [hF, hnil]; simp [zeros, List.append_assoc]
  · rw [hnil]; simp only [List.length_nil, List.length_append, Nat.zero_add, hb]
    exact add_mod_self_left' _ _ hmod
  · rw [hnil]; simp only [List.length_nil, List.length_append, Nat.zero_add, hb]; omega

theorem step_chunks : ∀ (f : Nat) (s : SBuf) (bs : List Nat), WF s → s.buf = [] → bs.length < f →
    Step s (s.putChunks f bs) := by
  intro f
  induction f with
  | zero => intro s bs _ _ h; omega
  | succ f ih =>
    intro s bs hwf hnil hf
    have hpos := bufSize_pos hwf
    unfold SBuf.putChunks
    by_cases hge : bs.length ≥ s.bufSize
    · simp only [hge, if_true]
      obtain ⟨h1, h2, _⟩ := step_flush_full s (bs.take s.bufSize) hwf hnil (by simp; omega)
      have := ih _ (bs.drop s.bufSize) h1.2.2.1 h2 (by simp; omega)
      exact h1.trans (by simpa [SBuf.flush] using this)
    · simp only [hge, if_false]
      refine ⟨rfl, rfl, ⟨by simp; omega, hwf.2⟩, ?_⟩
      rintro F ⟨tail, hF, hmod, hge'⟩
      simp only at hF hmod hge'
      exact ⟨bs ++ tail, by rw [hF, hnil]; simp [List.append_assoc], by rw [hnil]; simpa using hmod,
        by rw [hnil]; simpa using hge'⟩


theorem fill_ok (l : LBuf) (h : l.bufSize ≤ l.inp.length) :
    l.fill = .ok { l with buf := l.inp.take l.bufSize, inp := l.inp.drop l.bufSize, cur := 0 } := by
  unfold LBuf.fill
  have : ¬ (l.inp.length < l.bufSize) := by omega
  simp [this]

theorem rt_chunks : ∀ (f1 f2 : Nat) (s : SBuf) (l : LBuf) (F bs acc : List Nat), WF s → s.buf = [] →
    bs.length < f1 → bs.length < f2 → l.bufSize = s.bufSize → l.base % 8 = s.base % 8 → s.out ++ l.inp = F →
    (bs = [] → l.cur = s.bufSize ∧ l.buf.length = s.bufSize) → Ext (s.putChunks f1 bs) F →
    ∃ l', l.getChunks f2 bs.length acc = .ok (acc ++ bs, l') ∧ Sync (s.putChunks f1 bs) l' F := by
  intro f1
  induction f1 with
  | zero => intro f2 s l F bs acc _ _ h; omega
  | succ f1 ih =>
    intro f2 s l F bs acc hwf hnil hf1 hf2 hB hbase hFl hz he
    have hpos := bufSize_pos hwf
    cases f2 with
    | zero => omega
    | succ f2 =>
    unfold SBuf.putChunks at he ⊢
    unfold LBuf.getChunks
    by_cases hge : bs.length ≥ s.bufSize
    · simp only [hge, if_true] at he ⊢
      have hgel : bs.length ≥ l.bufSize := by omega
      simp only [hgel, if_true]
      obtain ⟨h1, h2, h3⟩ := step_flush_full s (bs.take s.bufSize) hwf hnil (by simp; omega)
      have hsz : (({ s with buf := bs.take s.bufSize } : SBuf).flush).bufSize = s.bufSize := rfl
      have hbs : (({ s with buf := bs.take s.bufSize } : SBuf).flush).base = s.base := rfl
      generalize ({ s with buf := bs.take s.bufSize } : SBuf).flush = s2 at *
      have hst := step_chunks f1 s2 (bs.drop s.bufSize) h1.2.2.1 h2 (by simp; omega)
      -- the stream continues with this block
      obtain ⟨tail, hF2, hmod2, hge2⟩ := hst.2.2.2 F he
      rw [h2, h3] at hF2
      rw [h2, hsz] at hmod2 hge2
      simp only [List.append_nil, List.length_nil, Nat.zero_add] at hF2 hmod2 hge2
      have hinp : l.inp = bs.take s.bufSize ++ tail :=
        tail_unique (o := s.out) (b := bs.take s.bufSize) (t1 := tail) (X := l.inp) (F := F) hF2 hFl
      have htl : (bs.take s.bufSize).length = s.bufSize := by simp; omega
      have hlen : l.bufSize ≤ l.inp.length := by
        rw [hinp, hB]; simp only [List.length_append, htl]; omega
      rw [fill_ok l hlen]
      simp only [bind, Except.bind]
      have htake : l.inp.take l.bufSize = bs.take s.bufSize := by
        rw [hinp, hB, List.take_append_of_le_length (by omega), List.take_of_length_le (by omega)]
      have hdrop : l.inp.drop l.bufSize = tail := by
        rw [hinp, hB, List.drop_append_of_le_length (by omega), List.drop_of_length_le (by omega)]; rfl
      have := ih f2 s2 { l with buf := l.inp.take l.bufSize, inp := l.inp.drop l.bufSize, cur := l.bufSize }
          F (bs.drop s.bufSize) (acc ++ (l.inp.take l.bufSize).take l.bufSize) h1.2.2.1 h2 (by simp; omega) (by simp; omega)
          (by rw [hsz]; exact hB) (by rw [hbs]; exact hbase) (by rw [h3]; simp only; rw [hdrop, hF2]) (by
            intro _; simp only [List.length_take]; rw [hsz]; refine ⟨hB, ?_⟩; omega) he
      obtain ⟨l', hl', hs'⟩ := this
      refine ⟨l', ?_, hs'⟩
      simp only [List.length_drop] at hl'
      rw [show bs.length - l.bufSize = bs.length - s.bufSize by rw [hB]]
      rw [hl', htake, List.take_of_length_le (by omega), List.append_assoc, List.take_append_drop]
    · simp only [hge, if_false] at he ⊢
      have hgel : ¬ (bs.length ≥ l.bufSize) := by omega
      simp only [hgel, if_false]
      by_cases hn : bs.length > 0
      · simp only [hn, if_true]
        obtain ⟨tail, hF2, hmod2, hge2⟩ := he
        simp only at hF2 hmod2 hge2
        have hinp : l.inp = bs ++ tail :=
          tail_unique (o := s.out) (b := bs) (t1 := tail) (X := l.inp) (F := F) hF2 hFl
        have hlen : l.bufSize ≤ l.inp.length := by rw [hinp, hB]; simpa using hge2
        rw [fill_ok l hlen]
        simp only [bind, Except.bind]
        have htake : (l.inp.take l.bufSize).take bs.length = bs := by
          rw [List.take_take, hinp, Nat.min_eq_left (by omega), List.take_left]
        refine ⟨{ l with buf := l.inp.take l.bufSize, inp := l.inp.drop l.bufSize, cur := bs.length }, by rw [htake], hB, hbase,
          by simp only [List.length_take]; omega, Or.inl ⟨rfl, ?_⟩⟩
        show s.out ++ l.inp.take l.bufSize ++ l.inp.drop l.bufSize = F
        rw [List.append_assoc, List.take_append_drop]; exact hFl
      · simp only [hn, if_false]
        have hb : bs = [] := List.eq_nil_of_length_eq_zero (by omega)
        obtain ⟨hc, hl⟩ := hz hb
        subst hb
        exact ⟨l, by simp, hB, hbase, hl, Or.inr ⟨rfl, hc, hFl⟩⟩


theorem step_flush_fill (s : SBuf) (extra : List Nat) (hwf : WF s) (hb : s.buf.length + extra.length = s.bufSize) :
    Step s ({ s with buf := s.buf ++ extra } : SBuf).flush ∧ (({ s with buf := s.buf ++ extra } : SBuf).flush).buf = [] ∧
      (({ s with buf := s.buf ++ extra } : SBuf).flush).out = s.out ++ s.buf ++ extra := by
  have hpos := bufSize_pos hwf
  have hz : s.bufSize - (s.buf ++ extra).length = 0 := by simp only [List.length_append]; omega
  refine ⟨⟨rfl, rfl, ⟨by simp [SBuf.flush], hwf.2⟩, ?_⟩, rfl, by simp only [SBuf.flush, hz, zeros, List.replicate_zero, List.append_nil, List.append_assoc]⟩
  rintro F ⟨tail, hF, hmod, hge⟩
  simp only [SBuf.flush, hz, List.length_nil, Nat.zero_add] at hF hmod hge
  refine ⟨extra ++ tail, ?_, ?_, ?_⟩
  · rw [hF]; simp [zeros, List.append_assoc]
  · simp only [List.length_append]
    rw [show s.buf.length + (extra.length + tail.length) = s.bufSize + tail.length by omega]
    exact add_mod_self_left' _ _ hmod
  · simp only [List.length_append]; omega

theorem putRaw_nil (s : SBuf) : s.putRaw [] = s := by simp [SBuf.putRaw]

theorem putRaw_direct (s : SBuf) (bs : List Nat) (h0 : bs ≠ []) (h : bs.length ≤ s.bufSize - s.buf.length) :
    s.putRaw bs = { s with buf := s.buf ++ bs } := by
  unfold SBuf.putRaw
  have : ¬ (bs.length == 0) = true := by
    simp; exact h0
  simp only [this, if_false, h, if_true]
  rfl

theorem putRaw_split (s : SBuf) (bs : List Nat) (h : ¬ bs.length ≤ s.bufSize - s.buf.length) :
    s.putRaw bs = (({ s with buf := s.buf ++ bs.take (s.bufSize - s.buf.length) } : SBuf).flush).putChunks
      (bs.length + 1) (bs.drop (s.bufSize - s.buf.length)) := by
  unfold SBuf.putRaw
  have : ¬ (bs.length == 0) = true := by
    simp; intro h0; subst h0; simp at h
  simp only [this, if_false, h]
  rfl

theorem step_raw (s : SBuf) (bs : List Nat) (hwf : WF s) : Step s (s.putRaw bs) := by
  by_cases h0 : bs = []
  · subst h0; rw [putRaw_nil]; exact Step.refl s hwf
  by_cases h : bs.length ≤ s.bufSize - s.buf.length
  · rw [putRaw_direct s bs h0 h]
    have := hwf.1
    refine ⟨rfl, rfl, ⟨by simp only [List.length_append]; omega, hwf.2⟩, ?_⟩
    rintro F ⟨tail, hF, hmod, hge⟩
    simp only [List.length_append] at hF hmod hge
    exact ⟨bs ++ tail, by rw [hF]; simp [List.append_assoc],
      by simp only [List.length_append]; rw [← Nat.add_assoc]; exact hmod,
      by simp only [List.length_append]; omega⟩
  · rw [putRaw_split s bs h]
    have := hwf.1
    obtain ⟨h1, h2, _⟩ := step_flush_fill s (bs.take (s.bufSize - s.buf.length)) hwf (by
      simp only [List.length_take]; omega)
    exact h1.trans (step_chunks _ _ _ h1.2.2.1 h2 (by simp only [List.length_drop]; omega))


theorem getRaw_direct (l : LBuf) (n : Nat) (h0 : n ≠ 0) (h : n ≤ l.buf.length - l.cur) :
    l.getRaw n = .ok ((l.buf.drop l.cur).take n, { l with cur := l.cur + n }) := by
  unfold LBuf.getRaw
  have : ¬ (n == 0) = true := by simp; exact h0
  simp only [this, if_false, h, if_true]
  rfl

theorem getRaw_split (l : LBuf) (n : Nat) (h : ¬ n ≤ l.buf.length - l.cur) :
    l.getRaw n = l.getChunks (n + 1) (n - (l.buf.length - l.cur)) (l.buf.drop l.cur) := by
  unfold LBuf.getRaw
  have : ¬ (n == 0) = true := by simp; intro h0; subst h0; simp at h
  simp only [this, h]
  rfl

theorem putRaw_as_chunks (s : SBuf) (bs : List Nat) (hnil : s.buf = []) (h0 : bs ≠ []) (hne : bs.length ≠ s.bufSize) :
    s.putRaw bs = s.putChunks (bs.length + 2) bs := by
  by_cases h : bs.length ≤ s.bufSize - s.buf.length
  · rw [putRaw_direct s bs h0 h]
    unfold SBuf.putChunks
    rw [hnil] at h
    have : ¬ bs.length ≥ s.bufSize := by simp at h; omega
    simp only [this, if_false, hnil, List.nil_append]
  · rw [putRaw_split s bs h]
    conv => rhs; unfold SBuf.putChunks
    rw [hnil] at h
    have : bs.length ≥ s.bufSize := by simp at h; omega
    simp only [this, if_true, hnil, List.nil_append, List.length_nil, Nat.sub_zero]

theorem rt_raw (s : SBuf) (l : LBuf) (F bs : List Nat) (hwf : WF s) (hs : Sync s l F) (he : Ext (s.putRaw bs) F) :
    ∃ l', l.getRaw bs.length = .ok (bs, l') ∧ Sync (s.putRaw bs) l' F := by
  by_cases h0 : bs = []
  · subst h0; rw [putRaw_nil]; exact ⟨l, by simp [LBuf.getRaw], hs⟩
  have hn0 : bs.length ≠ 0 := fun h => h0 (List.eq_nil_of_length_eq_zero h)
  have hpos := bufSize_pos hwf
  have hbuf := hwf.1
  obtain ⟨hB, hbase, hlen, hp⟩ := hs
  rcases hp with ⟨hcur, hFl⟩ | ⟨hnil, hcur, hFl⟩
  · by_cases h : bs.length ≤ s.bufSize - s.buf.length
    · -- fits into the current block
      rw [putRaw_direct s bs h0 h] at he ⊢
      obtain ⟨tail, hF, hmod, hge⟩ := he
      simp only at hF hmod hge
      have hX := tail_unique hF (X := l.buf ++ l.inp) (by simpa [List.append_assoc] using hFl)
      obtain ⟨r, hr, _⟩ := prefix_split _ _ _ _ hX (by simp only [List.length_append]; omega)
      rw [getRaw_direct l _ hn0 (by omega)]
      refine ⟨{ l with cur := l.cur + bs.length }, ?_, hB, hbase, hlen, Or.inl ⟨?_, hFl⟩⟩
      · rw [hr, hcur, drop_take_mid]
      · simp only [List.length_append, hcur]
    · -- spills over
      rw [putRaw_split s bs h] at he ⊢
      obtain ⟨h1, h2, h3⟩ := step_flush_fill s (bs.take (s.bufSize - s.buf.length)) hwf (by
        simp only [List.length_take]; omega)
      have hsz : (({ s with buf := s.buf ++ bs.take (s.bufSize - s.buf.length) } : SBuf).flush).bufSize = s.bufSize := rfl
      have hbs : (({ s with buf := s.buf ++ bs.take (s.bufSize - s.buf.length) } : SBuf).flush).base = s.base := rfl
      generalize ({ s with buf := s.buf ++ bs.take (s.bufSize - s.buf.length) } : SBuf).flush = s1 at *
      have hst := step_chunks (bs.length + 1) s1 (bs.drop (s.bufSize - s.buf.length)) h1.2.2.1 h2 (by
        simp only [List.length_drop]; omega)
      obtain ⟨tail, hF2, hmod2, hge2⟩ := hst.2.2.2 F he
      rw [h2, h3] at hF2
      simp only [List.append_nil] at hF2
      have hX := tail_unique (o := s.out) (b := s.buf ++ bs.take (s.bufSize - s.buf.length)) (t1 := tail)
        (X := l.buf ++ l.inp) (F := F) (by rw [hF2]; simp [List.append_assoc]) (by simpa [List.append_assoc] using hFl)
      have htl : (s.buf ++ bs.take (s.bufSize - s.buf.length)).length = s.bufSize := by
        simp only [List.length_append, List.length_take]; omega
      obtain ⟨r, hr, hD⟩ := prefix_split _ _ _ _ hX (by omega)
      have hr0 : r = [] := by
        have : l.buf.length = (s.buf ++ bs.take (s.bufSize - s.buf.length) ++ r).length := by rw [← hr]
        rw [List.length_append, htl] at this
        exact List.eq_nil_of_length_eq_zero (by omega)
      subst hr0
      simp only [List.nil_append, List.append_nil] at hD hr
      rw [getRaw_split l _ (by omega)]
      have := rt_chunks (bs.length + 1) (bs.length + 1) s1 l F (bs.drop (s.bufSize - s.buf.length)) (l.buf.drop l.cur)
        h1.2.2.1 h2 (by simp only [List.length_drop]; omega) (by simp only [List.length_drop]; omega)
        (by rw [hsz]; exact hB) (by rw [hbs]; exact hbase) (by rw [h3, ← hD, hF2])
        (by intro hnil'; exfalso; have := congrArg List.length hnil'; simp only [List.length_drop, List.length_nil] at this; omega) he
      obtain ⟨l', hl', hs'⟩ := this
      refine ⟨l', ?_, hs'⟩
      simp only [List.length_drop] at hl'
      rw [hcur] at hl'
      rw [hlen, hcur, hl', hr, List.drop_left, List.take_append_drop]
  · have hdrop : l.buf.drop l.cur = [] := List.drop_of_length_le (by omega)
    have havail : l.buf.length - l.cur = 0 := by omega
    rw [getRaw_split l _ (by omega), havail, hdrop, Nat.sub_zero]
    by_cases hne : bs.length = s.bufSize
    · -- exactly one block: the store keeps it in the buffer, the load consumes a whole refill
      rw [putRaw_direct s bs h0 (by rw [hnil]; simp; omega)] at he ⊢
      obtain ⟨tail, hF, hmod, hge⟩ := he
      rw [hnil] at hF hmod hge
      simp only [List.nil_append] at hF hmod hge
      have hinp : l.inp = bs ++ tail := tail_unique (o := s.out) (b := bs) (t1 := tail) (X := l.inp) (F := F) hF hFl
      have hlenI : l.bufSize ≤ l.inp.length := by rw [hinp, hB]; simp only [List.length_append]; omega
      have htake : l.inp.take l.bufSize = bs := by rw [hinp, hB, ← hne, List.take_left]
      unfold LBuf.getChunks
      have h1 : bs.length ≥ l.bufSize := by omega
      simp only [h1, if_true, fill_ok l hlenI, bind, Except.bind]
      have h2 : bs.length - l.bufSize = 0 := by omega
      rw [h2]
      cases hbl : bs.length with
      | zero => omega
      | succ k =>
        unfold LBuf.getChunks
        have h3 : ¬ (0 ≥ l.bufSize) := by omega
        simp only [h3, if_false, Nat.lt_irrefl, List.nil_append]
        refine ⟨{ l with buf := l.inp.take l.bufSize, inp := l.inp.drop l.bufSize, cur := l.bufSize },
          by rw [htake, List.take_of_length_le (by omega)], hB, hbase, by simp only [List.length_take]; omega,
          Or.inl ⟨?_, ?_⟩⟩
        · simp only [hnil, List.nil_append]; omega
        · show s.out ++ l.inp.take l.bufSize ++ l.inp.drop l.bufSize = F
          rw [List.append_assoc, List.take_append_drop]; exact hFl
    · rw [putRaw_as_chunks s bs hnil h0 hne] at he ⊢
      have := rt_chunks (bs.length + 2) (bs.length + 1) s l F bs [] hwf hnil (by omega) (by omega) hB hbase hFl
        (fun h => absurd h h0) he
      simpa using this


-- ------------------------------------------------------------------ descriptor tables (regenerated from the source)
theorem desc_tables : ∀ t : Ty, DescOK t.w ∧ t.r = t.w := by
  intro t
  cases t <;> exact ⟨⟨by decide, by decide, by decide, by decide⟩, by decide⟩

theorem sz_xmlch_pos : 0 < sz_xmlch := by decide
theorem sz_byte_one : sz_byte = 1 := by decide

-- ------------------------------------------------------------------ code units
theorem unitsToBytes_length (us : List Nat) : (unitsToBytes us).length = us.length * sz_xmlch := by
  induction us with
  | nil => simp [unitsToBytes]
  | cons u us ih => simp only [unitsToBytes, List.length_append, toLE_length, ih, List.length_cons]; rw [Nat.add_mul]; omega

theorem bytesToUnits_unitsToBytes (us : List Nat) (h : ∀ u ∈ us, u < 256 ^ sz_xmlch) :
    bytesToUnits us.length (unitsToBytes us) = us := by
  induction us with
  | nil => simp [bytesToUnits]
  | cons u us ih =>
    simp only [unitsToBytes, List.length_cons, bytesToUnits]
    have h1 : (toLE sz_xmlch u ++ unitsToBytes us).take sz_xmlch = toLE sz_xmlch u := by
      rw [List.take_left' (toLE_length _ _)]
    have h2 : (toLE sz_xmlch u ++ unitsToBytes us).drop sz_xmlch = unitsToBytes us := by
      rw [List.drop_left' (toLE_length _ _)]
    rw [h1, h2, fromLE_toLE _ _ (h u (by simp)), ih (fun x hx => h x (by simp [hx]))]


-- ------------------------------------------------------------------ values
/-- `get` reads back `a` from wherever `put` wrote it, and leaves the two buffers in step -/
def RT {α : Type} (put : SBuf → SBuf) (get : LBuf → Except Err (α × LBuf)) (a : α) : Prop :=
  ∀ s l F, WF s → Sync s l F → Ext (put s) F → ∃ l', get l = .ok (a, l') ∧ Sync (put s) l' F

def Stepper (put : SBuf → SBuf) : Prop := ∀ s, WF s → Step s (put s)

theorem stepper_ul (v : Nat) : Stepper (fun s => s.putUL v) :=
  fun s h => step_prim s _ v (desc_tables .ulong).1 h

theorem rt_ul (v : Nat) (hv : v < 256 ^ Ty.ulong.w.adv) : RT (fun s => s.putUL v) LBuf.getUL v := by
  intro s l F hwf hs he
  have := rt_prim s l F Ty.ulong.w v (desc_tables .ulong).1 hv hwf hs he
  unfold LBuf.getUL; rw [(desc_tables .ulong).2]; exact this

theorem ulong_bound : 256 ^ Ty.ulong.w.adv = noDataFollowed + 1 := by decide

/-- length word + data block, as `writeString` emits them and `readString` reads them -/
theorem rt_len_raw (n : Nat) (bs : List Nat) (hn : n < noDataFollowed) (s : SBuf) (l : LBuf) (F : List Nat)
    (hwf : WF s) (hs : Sync s l F) (he : Ext ((s.putUL n).putRaw bs) F) :
    ∃ l1 l2, l.getUL = .ok (n, l1) ∧ l1.getRaw bs.length = .ok (bs, l2) ∧ Sync ((s.putUL n).putRaw bs) l2 F := by
  have st1 := stepper_ul n s hwf
  have st2 := step_raw (s.putUL n) bs st1.2.2.1
  obtain ⟨l1, hg1, hs1⟩ := rt_ul n (by rw [ulong_bound]; omega) s l F hwf hs (st2.2.2.2 F he)
  obtain ⟨l2, hg2, hs2⟩ := rt_raw (s.putUL n) l1 F bs st1.2.2.1 hs1 he
  exact ⟨l1, l2, hg1, hg2, hs2⟩

theorem stepper_val (v : Val) : Stepper (fun s => s.putVal v) := by
  intro s hwf
  cases v with
  | prim t x => exact step_prim s _ x (desc_tables t).1 hwf
  | raw bs => exact step_raw s bs hwf
  | str o => cases o with
    | none => exact stepper_ul _ s hwf
    | some us => exact (stepper_ul _ s hwf).trans (step_raw _ _ (stepper_ul _ s hwf).2.2.1)
  | bstr o => cases o with
    | none => exact stepper_ul _ s hwf
    | some us => exact (stepper_ul _ s hwf).trans (step_raw _ _ (stepper_ul _ s hwf).2.2.1)
  | strL o => cases o with
    | none => exact stepper_ul _ s hwf
    | some p =>
      obtain ⟨us, bl⟩ := p
      have a := stepper_ul bl s hwf
      have b := stepper_ul us.length _ a.2.2.1
      exact (a.trans b).trans (step_raw _ _ b.2.2.1)
  | bstrL o => cases o with
    | none => exact stepper_ul _ s hwf
    | some p =>
      obtain ⟨us, bl⟩ := p
      have a := stepper_ul bl s hwf
      have b := stepper_ul us.length _ a.2.2.1
      exact (a.trans b).trans (step_raw _ _ b.2.2.1)


theorem noData_ne (n : Nat) (h : n < noDataFollowed) : (n == noDataFollowed) = false := by
  simp; omega

theorem rt_null (s : SBuf) (l : LBuf) (F : List Nat) (hwf : WF s) (hs : Sync s l F)
    (he : Ext (s.putUL noDataFollowed) F) (withLen : Bool) (unit : Nat) :
    ∃ l', l.getStr withLen unit = .ok (none, l') ∧ Sync (s.putUL noDataFollowed) l' F := by
  obtain ⟨l1, hg, hs1⟩ := rt_ul noDataFollowed (by rw [ulong_bound]; omega) s l F hwf hs he
  refine ⟨l1, ?_, hs1⟩
  unfold LBuf.getStr
  simp [hg, bind, Except.bind]

theorem rt_str_plain (bs : List Nat) (cnt unit : Nat) (hcnt : cnt < noDataFollowed) (hlen : bs.length = cnt * unit)
    (s : SBuf) (l : LBuf) (F : List Nat) (hwf : WF s) (hs : Sync s l F) (he : Ext ((s.putUL cnt).putRaw bs) F) :
    ∃ l', l.getStr false unit = .ok (some (bs, cnt + 1), l') ∧ Sync ((s.putUL cnt).putRaw bs) l' F := by
  obtain ⟨l1, l2, hg1, hg2, hs2⟩ := rt_len_raw cnt bs hcnt s l F hwf hs he
  refine ⟨l2, ?_, hs2⟩
  unfold LBuf.getStr
  rw [hlen] at hg2
  simp [hg1, bind, Except.bind, noData_ne cnt hcnt, hg2]

theorem rt_str_len (bs : List Nat) (cnt bl unit : Nat) (hcnt : cnt < bl) (hbl : bl < noDataFollowed)
    (hlen : bs.length = cnt * unit)
    (s : SBuf) (l : LBuf) (F : List Nat) (hwf : WF s) (hs : Sync s l F)
    (he : Ext (((s.putUL bl).putUL cnt).putRaw bs) F) :
    ∃ l', l.getStr true unit = .ok (some (bs, bl), l') ∧ Sync (((s.putUL bl).putUL cnt).putRaw bs) l' F := by
  have st1 := stepper_ul bl s hwf
  have st2 := stepper_ul cnt _ st1.2.2.1
  have st3 := step_raw _ bs st2.2.2.1
  obtain ⟨l0, hg0, hs0⟩ := rt_ul bl (by rw [ulong_bound]; omega) s l F hwf hs (st2.2.2.2 F (st3.2.2.2 F he))
  obtain ⟨l1, l2, hg1, hg2, hs2⟩ := rt_len_raw cnt bs (by omega) (s.putUL bl) l0 F st1.2.2.1 hs0 he
  refine ⟨l2, ?_, hs2⟩
  unfold LBuf.getStr
  rw [hlen] at hg2
  have : ¬ (cnt ≥ bl) := by omega
  simp [hg0, bind, Except.bind, noData_ne bl hbl, hg1, this, hg2]


theorem units_ok_bound {us : List Nat} (h : ∀ u ∈ us, unitOK u) : ∀ u ∈ us, u < 256 ^ sz_xmlch :=
  fun u hu => (h u hu).2

theorem rt_val (v : Val) (hv : v.ok) : RT (fun s => s.putVal v) (fun l => l.getVal v.shape) v := by
  intro s l F hwf hs he
  cases v with
  | prim t x =>
    obtain ⟨l', hg, hs'⟩ := rt_prim s l F t.w x (desc_tables t).1 (by
      have := (desc_tables t).1.xfer; simp only [Val.ok] at hv; rw [← this]; exact hv) hwf hs he
    refine ⟨l', ?_, hs'⟩
    simp only [Val.shape, LBuf.getVal, (desc_tables t).2, hg, bind, Except.bind]
  | raw bs =>
    obtain ⟨l', hg, hs'⟩ := rt_raw s l F bs hwf hs he
    refine ⟨l', ?_, hs'⟩
    simp only [Val.shape, LBuf.getVal, hg, bind, Except.bind]
  | str o =>
    cases o with
    | none =>
      obtain ⟨l', hg, hs'⟩ := rt_null s l F hwf hs he false sz_xmlch
      exact ⟨l', by simp only [Val.shape, LBuf.getVal, hg, bind, Except.bind, Option.map], hs'⟩
    | some us =>
      simp only [Val.ok] at hv
      obtain ⟨l', hg, hs'⟩ := rt_str_plain (unitsToBytes us) us.length sz_xmlch hv.2 (unitsToBytes_length us) s l F hwf hs he
      refine ⟨l', ?_, hs'⟩
      simp only [Val.shape, LBuf.getVal, hg, bind, Except.bind, Option.map, unitsToBytes_length,
        Nat.mul_div_cancel _ sz_xmlch_pos, bytesToUnits_unitsToBytes us (units_ok_bound hv.1)]
  | bstr o =>
    cases o with
    | none =>
      obtain ⟨l', hg, hs'⟩ := rt_null s l F hwf hs he false sz_byte
      exact ⟨l', by simp only [Val.shape, LBuf.getVal, hg, bind, Except.bind, Option.map], hs'⟩
    | some bs =>
      simp only [Val.ok] at hv
      obtain ⟨l', hg, hs'⟩ := rt_str_plain bs bs.length sz_byte hv.2 (by rw [sz_byte_one]; omega) s l F hwf hs he
      exact ⟨l', by simp only [Val.shape, LBuf.getVal, hg, bind, Except.bind, Option.map], hs'⟩
  | strL o =>
    cases o with
    | none =>
      obtain ⟨l', hg, hs'⟩ := rt_null s l F hwf hs he true sz_xmlch
      exact ⟨l', by simp only [Val.shape, LBuf.getVal, hg, bind, Except.bind, Option.map], hs'⟩
    | some p =>
      obtain ⟨us, bl⟩ := p
      simp only [Val.ok] at hv
      obtain ⟨l', hg, hs'⟩ := rt_str_len (unitsToBytes us) us.length bl sz_xmlch hv.2.1 hv.2.2 (unitsToBytes_length us) s l F hwf hs he
      refine ⟨l', ?_, hs'⟩
      simp only [Val.shape, LBuf.getVal, hg, bind, Except.bind, Option.map, unitsToBytes_length,
        Nat.mul_div_cancel _ sz_xmlch_pos, bytesToUnits_unitsToBytes us (units_ok_bound hv.1)]
  | bstrL o =>
    cases o with
    | none =>
      obtain ⟨l', hg, hs'⟩ := rt_null s l F hwf hs he true sz_byte
      exact ⟨l', by simp only [Val.shape, LBuf.getVal, hg, bind, Except.bind, Option.map], hs'⟩
    | some p =>
      obtain ⟨bs, bl⟩ := p
      simp only [Val.ok] at hv
      obtain ⟨l', hg, hs'⟩ := rt_str_len bs bs.length bl sz_byte hv.2.1 hv.2.2 (by rw [sz_byte_one]; omega) s l F hwf hs he
      exact ⟨l', by simp only [Val.shape, LBuf.getVal, hg, bind, Except.bind, Option.map], hs'⟩

/-- value lists -/
theorem stepper_vals : ∀ (vs : List Val) (s : SBuf), WF s → Step s (s.putVals vs)
  | [], s, h => Step.refl s h
  | v :: vs, s, h => (stepper_val v s h).trans (stepper_vals vs _ (stepper_val v s h).2.2.1)

theorem rt_vals : ∀ (vs : List Val), (∀ v ∈ vs, v.ok) → ∀ (s : SBuf) (l : LBuf) (F : List Nat), WF s → Sync s l F →
    Ext (s.putVals vs) F → ∃ l', l.getVals (vs.map Val.shape) = .ok (vs, l') ∧ Sync (s.putVals vs) l' F
  | [], _, s, l, F, _, hs, _ => ⟨l, rfl, hs⟩
  | v :: vs, hok, s, l, F, hwf, hs, he => by
    have st := stepper_val v s hwf
    have st2 := stepper_vals vs _ st.2.2.1
    obtain ⟨l1, hg1, hs1⟩ := rt_val v (hok v (by simp)) s l F hwf hs (st2.2.2.2 F he)
    obtain ⟨l2, hg2, hs2⟩ := rt_vals vs (fun x hx => hok x (by simp [hx])) _ l1 F st.2.2.1 hs1 he
    refine ⟨l2, ?_, hs2⟩
    simp only [List.map_cons, LBuf.getVals, hg1, hg2, bind, Except.bind]


-- ------------------------------------------------------------------ whole engines
theorem wf_init (base B : Nat) (h : minBuf base ≤ B) : WF (SBuf.init base B) := ⟨by simp [SBuf.init], h⟩

theorem finish_ext (s : SBuf) (hwf : WF s) : Ext s s.finish := by
  have := hwf.1
  have hpos := bufSize_pos hwf
  refine ⟨zeros (s.bufSize - s.buf.length), rfl, ?_, ?_⟩
  · rw [zeros_length, show s.buf.length + (s.bufSize - s.buf.length) = s.bufSize by omega, Nat.mod_self]
  · rw [zeros_length]; omega

theorem init_sync (baseS baseL B : Nat) (F : List Nat) (hb : baseL % 8 = baseS % 8)
    (he : Ext (SBuf.init baseS B) F) :
    ∃ l, LBuf.init baseL B F = .ok l ∧ Sync (SBuf.init baseS B) l F := by
  obtain ⟨tail, hF, _, hge⟩ := he
  simp only [SBuf.init, List.nil_append, List.length_nil, Nat.zero_add] at hF hge
  have hlen : B ≤ F.length := by rw [hF]; exact hge
  refine ⟨{ base := baseL, bufSize := B, inp := F.drop B, buf := F.take B, cur := 0 }, ?_, rfl, hb, ?_, Or.inl ⟨rfl, ?_⟩⟩
  · unfold LBuf.init
    rw [fill_ok _ (by simpa using hlen)]
  · simp only [List.length_take, SBuf.init]; omega
  · simp [SBuf.init]

theorem vals_roundtrip (baseS baseL B : Nat) (vs : List Val) (hB : minBuf baseS ≤ B)
    (hbase : baseL % 8 = baseS % 8) (hok : ∀ v ∈ vs, v.ok) :
    loadVals baseL B (storeVals baseS B vs) (vs.map Val.shape) = .ok vs := by
  have hwf := wf_init baseS B hB
  have st := stepper_vals vs _ hwf
  have hfin := finish_ext _ st.2.2.1
  obtain ⟨l, hl, hs⟩ := init_sync baseS baseL B _ hbase (st.2.2.2 _ hfin)
  obtain ⟨l', hg, _⟩ := rt_vals vs hok _ l _ hwf hs hfin
  unfold loadVals storeVals
  simp only [hl, hg, bind, Except.bind]

end XV.Lemmas.SerEngine
