/-
C07 — the position (Glushkov / McNaughton–Yamada / followpos) automaton of a content particle is exact.

Pure, declarative versions of what `DFAContentModel::buildSyntaxTree` computes: leaf positions are numbered
left to right from `lo`; `first`/`last`/`fol` are the firstpos/lastpos/followpos relations as Boolean
functions on positions.  `PLang c lo π` is the language of the *linearised* particle (words of positions).

  lang_iff_plang   : CM.Lang c w ↔ ∃ π, PLang c lo π ∧ π.map (nameAt c lo) = w
  plang_iff_accepts: PLang c lo π ↔ accepts c lo π          (the language of a linear expression is local)
  lang_iff_accepts : CM.Lang c w ↔ ∃ π, accepts c lo π ∧ π.map (nameAt c lo) = w

Nothing here assumes determinism (1-unambiguity) of the content model.  Core Lean only.
-/
import XV.Spec.ContentModel
namespace XV.Lemmas.Glushkov
open XV.Spec.ContentModel

/-- number of leaves -/
def size : CM → Nat
  | .leaf _ => 1
  | .seq a b => size a + size b
  | .choice a b => size a + size b
  | .opt a => size a
  | .star a => size a
  | .plus a => size a

def nullable : CM → Bool
  | .leaf _ => false
  | .seq a b => nullable a && nullable b
  | .choice a b => nullable a || nullable b
  | .opt _ => true
  | .star _ => true
  | .plus a => nullable a

/-- leaf names, left to right -/
def names : CM → List Name
  | .leaf n => [n]
  | .seq a b => names a ++ names b
  | .choice a b => names a ++ names b
  | .opt a => names a
  | .star a => names a
  | .plus a => names a

def first : CM → Nat → Nat → Bool
  | .leaf _, lo, p => p == lo
  | .seq a b, lo, p => first a lo p || (nullable a && first b (lo + size a) p)
  | .choice a b, lo, p => first a lo p || first b (lo + size a) p
  | .opt a, lo, p => first a lo p
  | .star a, lo, p => first a lo p
  | .plus a, lo, p => first a lo p

def last : CM → Nat → Nat → Bool
  | .leaf _, lo, p => p == lo
  | .seq a b, lo, p => last b (lo + size a) p || (nullable b && last a lo p)
  | .choice a b, lo, p => last a lo p || last b (lo + size a) p
  | .opt a, lo, p => last a lo p
  | .star a, lo, p => last a lo p
  | .plus a, lo, p => last a lo p

/-- `fol c lo p q`: position `q` may follow position `p` -/
def fol : CM → Nat → Nat → Nat → Bool
  | .leaf _, _, _, _ => false
  | .seq a b, lo, p, q => fol a lo p q || fol b (lo + size a) p q || (last a lo p && first b (lo + size a) q)
  | .choice a b, lo, p, q => fol a lo p q || fol b (lo + size a) p q
  | .opt a, lo, p, q => fol a lo p q
  | .star a, lo, p, q => fol a lo p q || (last a lo p && first a lo q)
  | .plus a, lo, p, q => fol a lo p q || (last a lo p && first a lo q)

/-- language of the linearised particle: words of positions -/
inductive PLang : CM → Nat → List Nat → Prop where
  | leaf (n : Name) (lo : Nat) : PLang (.leaf n) lo [lo]
  | seq {a b : CM} {lo : Nat} {u v : List Nat} :
      PLang a lo u → PLang b (lo + size a) v → PLang (.seq a b) lo (u ++ v)
  | choiceL {a : CM} (b : CM) {lo : Nat} {u : List Nat} : PLang a lo u → PLang (.choice a b) lo u
  | choiceR (a : CM) {b : CM} {lo : Nat} {u : List Nat} : PLang b (lo + size a) u → PLang (.choice a b) lo u
  | optNone (a : CM) (lo : Nat) : PLang (.opt a) lo []
  | optSome {a : CM} {lo : Nat} {u : List Nat} : PLang a lo u → PLang (.opt a) lo u
  | starNil (a : CM) (lo : Nat) : PLang (.star a) lo []
  | starCons {a : CM} {lo : Nat} {u v : List Nat} :
      PLang a lo u → PLang (.star a) lo v → PLang (.star a) lo (u ++ v)
  | plusOne {a : CM} {lo : Nat} {u : List Nat} : PLang a lo u → PLang (.plus a) lo u
  | plusCons {a : CM} {lo : Nat} {u v : List Nat} :
      PLang a lo u → PLang (.plus a) lo v → PLang (.plus a) lo (u ++ v)

/-- name carried by position `p` (positions of `c` are `lo … lo + size c - 1`) -/
def nameAt (c : CM) (lo : Nat) (p : Nat) : Name := (names c).getD (p - lo) 0

/-- the automaton walk: consecutive positions related by `f`, the final one satisfying `l` -/
def walk (f : Nat → Nat → Bool) (l : Nat → Bool) : Nat → List Nat → Bool
  | p, [] => l p
  | p, q :: r => f p q && walk f l q r

/-- acceptance of a word of positions by the position automaton -/
def accepts (c : CM) (lo : Nat) : List Nat → Bool
  | [] => nullable c
  | p :: r => first c lo p && walk (fol c lo) (last c lo) p r

/-! ### ranges -/

theorem names_length (c : CM) : (names c).length = size c := by
  induction c <;> simp [names, size, *]

theorem size_pos (c : CM) : 0 < size c := by
  induction c <;> simp [size] <;> omega

theorem first_range {c : CM} {lo p : Nat} (h : first c lo p = true) : lo ≤ p ∧ p < lo + size c := by
  induction c generalizing lo with
  | leaf n => simp [first] at h; simp [size]; omega
  | seq a b iha ihb =>
    simp only [first, Bool.or_eq_true, Bool.and_eq_true] at h
    simp only [size]
    rcases h with h | ⟨_, h⟩
    · have := iha h; omega
    · have := ihb h; omega
  | choice a b iha ihb =>
    simp only [first, Bool.or_eq_true] at h
    simp only [size]
    rcases h with h | h
    · have := iha h; omega
    · have := ihb h; omega
  | opt a ih => exact ih h
  | star a ih => exact ih h
  | plus a ih => exact ih h

theorem last_range {c : CM} {lo p : Nat} (h : last c lo p = true) : lo ≤ p ∧ p < lo + size c := by
  induction c generalizing lo with
  | leaf n => simp [last] at h; simp [size]; omega
  | seq a b iha ihb =>
    simp only [last, Bool.or_eq_true, Bool.and_eq_true] at h
    simp only [size]
    rcases h with h | ⟨_, h⟩
    · have := ihb h; omega
    · have := iha h; omega
  | choice a b iha ihb =>
    simp only [last, Bool.or_eq_true] at h
    simp only [size]
    rcases h with h | h
    · have := iha h; omega
    · have := ihb h; omega
  | opt a ih => exact ih h
  | star a ih => exact ih h
  | plus a ih => exact ih h

theorem fol_range {c : CM} {lo p q : Nat} (h : fol c lo p q = true) :
    (lo ≤ p ∧ p < lo + size c) ∧ (lo ≤ q ∧ q < lo + size c) := by
  induction c generalizing lo with
  | leaf n => simp [fol] at h
  | seq a b iha ihb =>
    simp only [fol, Bool.or_eq_true, Bool.and_eq_true] at h
    simp only [size]
    rcases h with (h | h) | ⟨h1, h2⟩
    · have := iha h; omega
    · have := ihb h; omega
    · have := last_range h1; have := first_range h2; omega
  | choice a b iha ihb =>
    simp only [fol, Bool.or_eq_true] at h
    simp only [size]
    rcases h with h | h
    · have := iha h; omega
    · have := ihb h; omega
  | opt a ih => exact ih h
  | star a ih =>
    simp only [fol, Bool.or_eq_true, Bool.and_eq_true] at h
    simp only [size]
    rcases h with h | ⟨h1, h2⟩
    · exact ih h
    · have := last_range h1; have := first_range h2; omega
  | plus a ih =>
    simp only [fol, Bool.or_eq_true, Bool.and_eq_true] at h
    simp only [size]
    rcases h with h | ⟨h1, h2⟩
    · exact ih h
    · have := last_range h1; have := first_range h2; omega

theorem plang_range {c : CM} {lo : Nat} {π : List Nat} (h : PLang c lo π) :
    ∀ p, p ∈ π → lo ≤ p ∧ p < lo + size c := by
  induction h with
  | leaf n lo => intro p hp; simp at hp; subst hp; simp [size]
  | seq _ _ ih1 ih2 =>
    intro p hp; simp only [size]
    rcases List.mem_append.1 hp with hp | hp
    · have := ih1 p hp; omega
    · have := ih2 p hp; omega
  | choiceL _ _ ih => intro p hp; simp only [size]; have := ih p hp; omega
  | choiceR _ _ ih => intro p hp; simp only [size]; have := ih p hp; omega
  | optNone => intro p hp; cases hp
  | optSome _ ih => exact ih
  | starNil => intro p hp; cases hp
  | starCons _ _ ih1 ih2 =>
    intro p hp
    rcases List.mem_append.1 hp with hp | hp
    · exact ih1 p hp
    · exact ih2 p hp
  | plusOne _ ih => exact ih
  | plusCons _ _ ih1 ih2 =>
    intro p hp
    rcases List.mem_append.1 hp with hp | hp
    · exact ih1 p hp
    · exact ih2 p hp

/-! ### names of positions -/

theorem nameAt_left (a b : CM) (lo p : Nat) (h : lo ≤ p ∧ p < lo + size a) :
    (names a ++ names b).getD (p - lo) 0 = nameAt a lo p := by
  unfold nameAt
  simp only [List.getD_eq_getElem?_getD]
  rw [List.getElem?_append_left (by rw [names_length]; omega)]

theorem nameAt_right (a b : CM) (lo p : Nat) (h : lo + size a ≤ p) :
    (names a ++ names b).getD (p - lo) 0 = nameAt b (lo + size a) p := by
  unfold nameAt
  simp only [List.getD_eq_getElem?_getD]
  rw [List.getElem?_append_right (by rw [names_length]; omega)]
  rw [names_length]
  congr 2
  omega

theorem map_nameAt_congr {c c' : CM} {lo lo' : Nat} {π : List Nat}
    (h : ∀ p, p ∈ π → nameAt c lo p = nameAt c' lo' p) : π.map (nameAt c lo) = π.map (nameAt c' lo') :=
  List.map_congr_left h

/-! ### `Lang` is the image of the linearised language -/

theorem lang_of_plang {c : CM} {lo : Nat} {π : List Nat} (h : PLang c lo π) :
    CM.Lang c (π.map (nameAt c lo)) := by
  induction h with
  | leaf n lo => simp [nameAt, names]; exact .leaf n
  | @seq a b lo u v h1 h2 ih1 ih2 =>
    rw [List.map_append]
    have e1 : u.map (nameAt (.seq a b) lo) = u.map (nameAt a lo) :=
      map_nameAt_congr (fun p hp => nameAt_left a b lo p (plang_range h1 p hp))
    have e2 : v.map (nameAt (.seq a b) lo) = v.map (nameAt b (lo + size a)) :=
      map_nameAt_congr (fun p hp => nameAt_right a b lo p (plang_range h2 p hp).1)
    rw [e1, e2]; exact .seq ih1 ih2
  | @choiceL a b lo u h1 ih =>
    have e1 : u.map (nameAt (.choice a b) lo) = u.map (nameAt a lo) :=
      map_nameAt_congr (fun p hp => nameAt_left a b lo p (plang_range h1 p hp))
    rw [e1]; exact .choiceL _ ih
  | @choiceR a b lo u h1 ih =>
    have e2 : u.map (nameAt (.choice a b) lo) = u.map (nameAt b (lo + size a)) :=
      map_nameAt_congr (fun p hp => nameAt_right a b lo p (plang_range h1 p hp).1)
    rw [e2]; exact .choiceR _ ih
  | optNone a lo => exact .optNone a
  | optSome _ ih => exact .optSome ih
  | starNil a lo => exact .starNil a
  | starCons _ _ ih1 ih2 => rw [List.map_append]; exact .starCons ih1 ih2
  | plusOne _ ih => exact .plusOne ih
  | plusCons _ _ ih1 ih2 => rw [List.map_append]; exact .plusCons ih1 ih2

theorem plang_of_lang {c : CM} {w : List Name} (h : CM.Lang c w) (lo : Nat) :
    ∃ π, PLang c lo π ∧ π.map (nameAt c lo) = w := by
  induction h generalizing lo with
  | leaf n => exact ⟨[lo], .leaf n lo, by simp [nameAt, names]⟩
  | @seq a b u v _ _ ih1 ih2 =>
    obtain ⟨π1, h1, e1⟩ := ih1 lo
    obtain ⟨π2, h2, e2⟩ := ih2 (lo + size a)
    refine ⟨π1 ++ π2, .seq h1 h2, ?_⟩
    rw [List.map_append, ← e1, ← e2]
    congr 1
    · exact map_nameAt_congr (fun p hp => nameAt_left a b lo p (plang_range h1 p hp))
    · exact map_nameAt_congr (fun p hp => nameAt_right a b lo p (plang_range h2 p hp).1)
  | @choiceL a b u _ ih =>
    obtain ⟨π1, h1, e1⟩ := ih lo
    refine ⟨π1, .choiceL _ h1, ?_⟩
    rw [← e1]
    exact map_nameAt_congr (fun p hp => nameAt_left a b lo p (plang_range h1 p hp))
  | @choiceR a b u _ ih =>
    obtain ⟨π1, h1, e1⟩ := ih (lo + size a)
    refine ⟨π1, .choiceR _ h1, ?_⟩
    rw [← e1]
    exact map_nameAt_congr (fun p hp => nameAt_right a b lo p (plang_range h1 p hp).1)
  | optNone a => exact ⟨[], .optNone a lo, rfl⟩
  | optSome _ ih =>
    obtain ⟨π1, h1, e1⟩ := ih lo
    exact ⟨π1, .optSome h1, e1⟩
  | starNil a => exact ⟨[], .starNil a lo, rfl⟩
  | starCons _ _ ih1 ih2 =>
    obtain ⟨π1, h1, e1⟩ := ih1 lo
    obtain ⟨π2, h2, e2⟩ := ih2 lo
    refine ⟨π1 ++ π2, .starCons h1 h2, ?_⟩
    rw [List.map_append, ← e1, ← e2]; rfl
  | plusOne _ ih =>
    obtain ⟨π1, h1, e1⟩ := ih lo
    exact ⟨π1, .plusOne h1, e1⟩
  | plusCons _ _ ih1 ih2 =>
    obtain ⟨π1, h1, e1⟩ := ih1 lo
    obtain ⟨π2, h2, e2⟩ := ih2 lo
    refine ⟨π1 ++ π2, .plusCons h1 h2, ?_⟩
    rw [List.map_append, ← e1, ← e2]; rfl

theorem lang_iff_plang (c : CM) (lo : Nat) (w : List Name) :
    CM.Lang c w ↔ ∃ π, PLang c lo π ∧ π.map (nameAt c lo) = w :=
  ⟨fun h => plang_of_lang h lo, fun ⟨_, h, e⟩ => e ▸ lang_of_plang h⟩

/-! ### walks -/

theorem walk_mono {f f' : Nat → Nat → Bool} {l l' : Nat → Bool}
    (hf : ∀ p q, f p q = true → f' p q = true) (hl : ∀ e, l e = true → l' e = true) :
    ∀ (r : List Nat) (p : Nat), walk f l p r = true → walk f' l' p r = true := by
  intro r
  induction r with
  | nil => intro p h; exact hl p h
  | cons q r ih =>
    intro p h
    simp only [walk, Bool.and_eq_true] at h ⊢
    exact ⟨hf p q h.1, ih q h.2⟩

/-- a walk over `r ++ q :: r2` is a walk over `r` whose final condition is "step to `q` and walk on" -/
theorem walk_append (f : Nat → Nat → Bool) (l : Nat → Bool) (q : Nat) (r2 : List Nat) :
    ∀ (r : List Nat) (p : Nat),
      walk f l p (r ++ q :: r2) = walk f (fun e => f e q && walk f l q r2) p r := by
  intro r
  induction r with
  | nil => intro p; rfl
  | cons x r ih => intro p; simp only [List.cons_append, walk, ih]

/-- gluing two accepted words -/
theorem walk_glue {f : Nat → Nat → Bool} {l : Nat → Bool} {f1 : Nat → Nat → Bool} {l1 : Nat → Bool}
    {p q : Nat} {r r2 : List Nat}
    (hf : ∀ x y, f1 x y = true → f x y = true) (hj : ∀ e, l1 e = true → f e q = true)
    (h1 : walk f1 l1 p r = true) (h2 : walk f l q r2 = true) : walk f l p (r ++ q :: r2) = true := by
  rw [walk_append]
  exact walk_mono hf (fun e he => by simp [hj e he, h2]) r p h1

/-! ### soundness: every word of the linearised language is accepted -/

theorem accepts_of_plang {c : CM} {lo : Nat} {π : List Nat} (h : PLang c lo π) : accepts c lo π = true := by
  induction h with
  | leaf n lo => simp [accepts, first, walk, last]
  | @seq a b lo u v h1 h2 ih1 ih2 =>
    cases u with
    | nil =>
      cases v with
      | nil => simp only [accepts] at ih1 ih2; simp [accepts, nullable, ih1, ih2]
      | cons q r2 =>
        simp only [accepts, Bool.and_eq_true] at ih1 ih2
        simp only [List.nil_append, accepts, Bool.and_eq_true, first, Bool.or_eq_true]
        refine ⟨.inr ⟨ih1, ih2.1⟩, ?_⟩
        exact walk_mono (fun x y hxy => by simp [fol, hxy]) (fun e he => by simp [last, he]) r2 q ih2.2
    | cons p r =>
      simp only [accepts, Bool.and_eq_true] at ih1
      cases v with
      | nil =>
        simp only [accepts] at ih2
        simp only [List.append_nil, accepts, Bool.and_eq_true, first, Bool.or_eq_true]
        refine ⟨.inl ih1.1, ?_⟩
        exact walk_mono (fun x y hxy => by simp [fol, hxy]) (fun e he => by simp [last, he, ih2]) r p ih1.2
      | cons q r2 =>
        simp only [accepts, Bool.and_eq_true] at ih2
        simp only [List.cons_append, accepts, Bool.and_eq_true, first, Bool.or_eq_true]
        refine ⟨.inl ih1.1, ?_⟩
        refine walk_glue (f1 := fol a lo) (l1 := last a lo) (fun x y hxy => by simp [fol, hxy])
          (fun e he => by simp [fol, he, ih2.1]) ih1.2 ?_
        exact walk_mono (fun x y hxy => by simp [fol, hxy]) (fun e he => by simp [last, he]) r2 q ih2.2
  | @choiceL a b lo u h1 ih =>
    cases u with
    | nil => simp only [accepts] at ih; simp [accepts, nullable, ih]
    | cons p r =>
      simp only [accepts, Bool.and_eq_true] at ih
      simp only [accepts, Bool.and_eq_true, first, Bool.or_eq_true]
      exact ⟨.inl ih.1, walk_mono (fun x y hxy => by simp [fol, hxy]) (fun e he => by simp [last, he]) r p ih.2⟩
  | @choiceR a b lo u h1 ih =>
    cases u with
    | nil => simp only [accepts] at ih; simp [accepts, nullable, ih]
    | cons p r =>
      simp only [accepts, Bool.and_eq_true] at ih
      simp only [accepts, Bool.and_eq_true, first, Bool.or_eq_true]
      exact ⟨.inr ih.1, walk_mono (fun x y hxy => by simp [fol, hxy]) (fun e he => by simp [last, he]) r p ih.2⟩
  | optNone a lo => rfl
  | @optSome a lo u h1 ih =>
    cases u with
    | nil => rfl
    | cons p r => exact ih
  | starNil a lo => rfl
  | @starCons a lo u v h1 h2 ih1 ih2 =>
    cases u with
    | nil => exact ih2
    | cons p r =>
      simp only [accepts, Bool.and_eq_true] at ih1
      cases v with
      | nil =>
        simp only [List.append_nil, accepts, Bool.and_eq_true, first]
        exact ⟨ih1.1, walk_mono (fun x y hxy => by simp [fol, hxy]) (fun e he => by simp [last, he]) r p ih1.2⟩
      | cons q r2 =>
        simp only [accepts, Bool.and_eq_true, first] at ih2
        simp only [List.cons_append, accepts, Bool.and_eq_true, first]
        refine ⟨ih1.1, ?_⟩
        exact walk_glue (f1 := fol a lo) (l1 := last a lo) (fun x y hxy => by simp [fol, hxy])
          (fun e he => by simp [fol, he, ih2.1]) ih1.2 ih2.2
  | @plusOne a lo u h1 ih =>
    cases u with
    | nil => exact ih
    | cons p r =>
      simp only [accepts, Bool.and_eq_true] at ih
      simp only [accepts, Bool.and_eq_true, first]
      exact ⟨ih.1, walk_mono (fun x y hxy => by simp [fol, hxy]) (fun e he => by simp [last, he]) r p ih.2⟩
  | @plusCons a lo u v h1 h2 ih1 ih2 =>
    cases u with
    | nil => exact ih2
    | cons p r =>
      simp only [accepts, Bool.and_eq_true] at ih1
      cases v with
      | nil =>
        simp only [List.append_nil, accepts, Bool.and_eq_true, first]
        exact ⟨ih1.1, walk_mono (fun x y hxy => by simp [fol, hxy]) (fun e he => by simp [last, he]) r p ih1.2⟩
      | cons q r2 =>
        simp only [accepts, Bool.and_eq_true, first] at ih2
        simp only [List.cons_append, accepts, Bool.and_eq_true, first]
        refine ⟨ih1.1, ?_⟩
        exact walk_glue (f1 := fol a lo) (l1 := last a lo) (fun x y hxy => by simp [fol, hxy])
          (fun e he => by simp [fol, he, ih2.1]) ih1.2 ih2.2

/-! ### completeness: every accepted word of positions is in the linearised language -/

/-- inside `seq a b`, a walk that starts in `b` stays in `b` -/
theorem walk_seq_right {a b : CM} {lo : Nat} :
    ∀ (r : List Nat) (p : Nat), lo + size a ≤ p →
      walk (fol (.seq a b) lo) (last (.seq a b) lo) p r = true →
      walk (fol b (lo + size a)) (last b (lo + size a)) p r = true := by
  intro r
  induction r with
  | nil =>
    intro p hp h
    simp only [walk, last, Bool.or_eq_true, Bool.and_eq_true] at h ⊢
    rcases h with h | ⟨_, h⟩
    · exact h
    · have := last_range h; omega
  | cons q r ih =>
    intro p hp h
    simp only [walk, fol, Bool.or_eq_true, Bool.and_eq_true] at h ⊢
    obtain ⟨h1, h2⟩ := h
    rcases h1 with (h1 | h1) | ⟨h1, _⟩
    · have := fol_range h1; omega
    · exact ⟨h1, ih q (fol_range h1).2.1 h2⟩
    · have := last_range h1; omega

/-- inside `seq a b`, a walk that starts in `a` is a walk of `a`, optionally followed by a step into
    `first b` and a walk of `b` -/
theorem walk_seq_left {a b : CM} {lo : Nat} :
    ∀ (r : List Nat) (p : Nat), p < lo + size a →
      walk (fol (.seq a b) lo) (last (.seq a b) lo) p r = true →
      ∃ r1 rest, r = r1 ++ rest ∧ walk (fol a lo) (last a lo) p r1 = true ∧
        ((rest = [] ∧ nullable b = true) ∨
         ∃ q r2, rest = q :: r2 ∧ first b (lo + size a) q = true ∧
           walk (fol b (lo + size a)) (last b (lo + size a)) q r2 = true) := by
  intro r
  induction r with
  | nil =>
    intro p hp h
    simp only [walk, last, Bool.or_eq_true, Bool.and_eq_true] at h
    rcases h with h | ⟨hn, h⟩
    · have := last_range h; omega
    · exact ⟨[], [], rfl, h, .inl ⟨rfl, hn⟩⟩
  | cons q r ih =>
    intro p hp h
    simp only [walk, fol, Bool.or_eq_true, Bool.and_eq_true] at h
    obtain ⟨h1, h2⟩ := h
    rcases h1 with (h1 | h1) | ⟨h1, h1'⟩
    · obtain ⟨r1, rest, e, hw, hr⟩ := ih q (fol_range h1).2.2 h2
      refine ⟨q :: r1, rest, by simp [e], ?_, hr⟩
      simp only [walk, Bool.and_eq_true]; exact ⟨h1, hw⟩
    · have := fol_range h1; omega
    · exact ⟨[], q :: r, rfl, h1, .inr ⟨q, r, rfl, h1', walk_seq_right r q (first_range h1').1 h2⟩⟩

theorem walk_choice_left {a b : CM} {lo : Nat} :
    ∀ (r : List Nat) (p : Nat), p < lo + size a →
      walk (fol (.choice a b) lo) (last (.choice a b) lo) p r = true →
      walk (fol a lo) (last a lo) p r = true := by
  intro r
  induction r with
  | nil =>
    intro p hp h
    simp only [walk, last, Bool.or_eq_true] at h ⊢
    rcases h with h | h
    · exact h
    · have := last_range h; omega
  | cons q r ih =>
    intro p hp h
    simp only [walk, fol, Bool.or_eq_true, Bool.and_eq_true] at h ⊢
    obtain ⟨h1, h2⟩ := h
    rcases h1 with h1 | h1
    · exact ⟨h1, ih q (fol_range h1).2.2 h2⟩
    · have := fol_range h1; omega

theorem walk_choice_right {a b : CM} {lo : Nat} :
    ∀ (r : List Nat) (p : Nat), lo + size a ≤ p →
      walk (fol (.choice a b) lo) (last (.choice a b) lo) p r = true →
      walk (fol b (lo + size a)) (last b (lo + size a)) p r = true := by
  intro r
  induction r with
  | nil =>
    intro p hp h
    simp only [walk, last, Bool.or_eq_true] at h ⊢
    rcases h with h | h
    · have := last_range h; omega
    · exact h
  | cons q r ih =>
    intro p hp h
    simp only [walk, fol, Bool.or_eq_true, Bool.and_eq_true] at h ⊢
    obtain ⟨h1, h2⟩ := h
    rcases h1 with h1 | h1
    · have := fol_range h1; omega
    · exact ⟨h1, ih q (fol_range h1).2.1 h2⟩

/-- a walk of `a*` / `a+` splits off a first walk of `a` -/
theorem walk_loop_split {a : CM} {lo : Nat} :
    ∀ (r : List Nat) (p : Nat),
      walk (fun x y => fol a lo x y || (last a lo x && first a lo y)) (last a lo) p r = true →
      ∃ r1 rest, r = r1 ++ rest ∧ walk (fol a lo) (last a lo) p r1 = true ∧
        (rest = [] ∨ ∃ q r2, rest = q :: r2 ∧ first a lo q = true ∧
           walk (fun x y => fol a lo x y || (last a lo x && first a lo y)) (last a lo) q r2 = true) := by
  intro r
  induction r with
  | nil => intro p h; exact ⟨[], [], rfl, h, .inl rfl⟩
  | cons q r ih =>
    intro p h
    simp only [walk, Bool.and_eq_true] at h
    obtain ⟨h1, h2⟩ := h
    by_cases hf : fol a lo p q = true
    · obtain ⟨r1, rest, e, hw, hr⟩ := ih q h2
      refine ⟨q :: r1, rest, by simp [e], ?_, hr⟩
      simp only [walk, Bool.and_eq_true]; exact ⟨hf, hw⟩
    · simp only [Bool.or_eq_true, Bool.and_eq_true] at h1
      rcases h1 with h1 | ⟨h1, h1'⟩
      · exact absurd h1 hf
      · exact ⟨[], q :: r, rfl, h1, .inr ⟨q, r, rfl, h1', h2⟩⟩

theorem fol_star_eq (a : CM) (lo : Nat) :
    fol (.star a) lo = fun x y => fol a lo x y || (last a lo x && first a lo y) := by
  funext x y; rfl

theorem fol_plus_eq (a : CM) (lo : Nat) :
    fol (.plus a) lo = fun x y => fol a lo x y || (last a lo x && first a lo y) := by
  funext x y; rfl

theorem plang_of_accepts (c : CM) : ∀ (lo : Nat) (π : List Nat), accepts c lo π = true → PLang c lo π := by
  induction c with
  | leaf n =>
    intro lo π h
    cases π with
    | nil => simp [accepts, nullable] at h
    | cons p r =>
      cases r with
      | nil =>
        simp [accepts, first, walk, last] at h
        subst h; exact .leaf n p
      | cons q r => simp [accepts, walk, fol] at h
  | seq a b iha ihb =>
    intro lo π h
    cases π with
    | nil =>
      simp only [accepts, nullable, Bool.and_eq_true] at h
      exact PLang.seq (u := []) (v := []) (iha lo [] h.1) (ihb _ [] h.2)
    | cons p r =>
      simp only [accepts, Bool.and_eq_true] at h
      obtain ⟨hf, hw⟩ := h
      by_cases hfa : first a lo p = true
      · obtain ⟨r1, rest, e, hw1, hr⟩ := walk_seq_left r p (first_range hfa).2 hw
        have h1 : PLang a lo (p :: r1) := iha lo _ (by simp [accepts, hfa, hw1])
        rcases hr with ⟨rfl, hn⟩ | ⟨q, r2, rfl, hfb, hw2⟩
        · have h2 : PLang b (lo + size a) [] := ihb _ [] hn
          have := PLang.seq h1 h2
          simpa [e] using this
        · have h2 : PLang b (lo + size a) (q :: r2) := ihb _ _ (by simp [accepts, hfb, hw2])
          have := PLang.seq h1 h2
          simpa [e] using this
      · simp only [first, Bool.or_eq_true, Bool.and_eq_true] at hf
        rcases hf with hf | ⟨hn, hfb⟩
        · exact absurd hf hfa
        · have h1 : PLang a lo [] := iha lo [] hn
          have h2 : PLang b (lo + size a) (p :: r) :=
            ihb _ _ (by simp [accepts, hfb, walk_seq_right r p (first_range hfb).1 hw])
          exact PLang.seq (u := []) h1 h2
  | choice a b iha ihb =>
    intro lo π h
    cases π with
    | nil =>
      simp only [accepts, nullable, Bool.or_eq_true] at h
      rcases h with h | h
      · exact .choiceL _ (iha lo [] h)
      · exact .choiceR _ (ihb _ [] h)
    | cons p r =>
      simp only [accepts, Bool.and_eq_true, first, Bool.or_eq_true] at h
      obtain ⟨hf, hw⟩ := h
      rcases hf with hf | hf
      · exact .choiceL _ (iha lo _ (by simp [accepts, hf, walk_choice_left r p (first_range hf).2 hw]))
      · exact .choiceR _ (ihb _ _ (by simp [accepts, hf, walk_choice_right r p (first_range hf).1 hw]))
  | opt a iha =>
    intro lo π h
    cases π with
    | nil => exact .optNone a lo
    | cons p r => exact .optSome (iha lo _ h)
  | star a iha =>
    intro lo π
    -- induction on the length of the word
    suffices H : ∀ n (π : List Nat), π.length ≤ n → accepts (.star a) lo π = true → PLang (.star a) lo π from
      H π.length π (Nat.le_refl _)
    intro n
    induction n with
    | zero =>
      intro π hl _
      cases π with
      | nil => exact .starNil a lo
      | cons => simp at hl
    | succ n ihn =>
      intro π hl h
      cases π with
      | nil => exact .starNil a lo
      | cons p r =>
        simp only [accepts, Bool.and_eq_true, first, fol_star_eq] at h
        obtain ⟨hf, hw⟩ := h
        have hw' : walk (fun x y => fol a lo x y || (last a lo x && first a lo y)) (last a lo) p r = true := hw
        obtain ⟨r1, rest, e, hw1, hr⟩ := walk_loop_split r p hw'
        have h1 : PLang a lo (p :: r1) := iha lo _ (by simp [accepts, hf, hw1])
        rcases hr with rfl | ⟨q, r2, rfl, hfq, hw2⟩
        · have := PLang.starCons h1 (.starNil a lo)
          simpa [e] using this
        · have hlen : (q :: r2).length ≤ n := by
            simp only [e, List.length_cons, List.length_append] at hl ⊢; omega
          have h2 : PLang (.star a) lo (q :: r2) :=
            ihn _ hlen (by simp only [accepts, Bool.and_eq_true, first, fol_star_eq]; exact ⟨hfq, hw2⟩)
          have := PLang.starCons h1 h2
          simpa [e] using this
  | plus a iha =>
    intro lo π
    suffices H : ∀ n (π : List Nat), π.length ≤ n → accepts (.plus a) lo π = true → PLang (.plus a) lo π from
      H π.length π (Nat.le_refl _)
    intro n
    induction n with
    | zero =>
      intro π hl h
      cases π with
      | nil => exact .plusOne (iha lo [] h)
      | cons => simp at hl
    | succ n ihn =>
      intro π hl h
      cases π with
      | nil => exact .plusOne (iha lo [] h)
      | cons p r =>
        simp only [accepts, Bool.and_eq_true, first, fol_plus_eq] at h
        obtain ⟨hf, hw⟩ := h
        have hw' : walk (fun x y => fol a lo x y || (last a lo x && first a lo y)) (last a lo) p r = true := hw
        obtain ⟨r1, rest, e, hw1, hr⟩ := walk_loop_split r p hw'
        have h1 : PLang a lo (p :: r1) := iha lo _ (by simp [accepts, hf, hw1])
        rcases hr with rfl | ⟨q, r2, rfl, hfq, hw2⟩
        · have := PLang.plusOne h1
          simpa [e] using this
        · have hlen : (q :: r2).length ≤ n := by
            simp only [e, List.length_cons, List.length_append] at hl ⊢; omega
          have h2 : PLang (.plus a) lo (q :: r2) :=
            ihn _ hlen (by simp only [accepts, Bool.and_eq_true, first, fol_plus_eq]; exact ⟨hfq, hw2⟩)
          have := PLang.plusCons h1 h2
          simpa [e] using this

/-- the language of the linearised particle is exactly what the position automaton accepts -/
theorem plang_iff_accepts (c : CM) (lo : Nat) (π : List Nat) : PLang c lo π ↔ accepts c lo π = true :=
  ⟨accepts_of_plang, plang_of_accepts c lo π⟩

/-- Glushkov: a child sequence is in the language iff some word of positions carrying these names is
    accepted by the first/last/follow automaton -/
theorem lang_iff_accepts (c : CM) (lo : Nat) (w : List Name) :
    CM.Lang c w ↔ ∃ π, accepts c lo π = true ∧ π.map (nameAt c lo) = w := by
  rw [lang_iff_plang c lo]
  constructor
  · rintro ⟨π, h, e⟩; exact ⟨π, accepts_of_plang h, e⟩
  · rintro ⟨π, h, e⟩; exact ⟨π, plang_of_accepts c lo π h, e⟩

end XV.Lemmas.Glushkov
