/- Helper lemmas for C18: the DOM document arena keeps its sub-allocations apart. -/
import XV.Model.Arena
import XV.Spec.Arena
namespace XV.Lemmas.Arena
open XV.Model.Arena XV.Spec.Arena

def blk (b : Blk) : Block := (b.start, b.size)
def owned (a : Arena) : List Blk := a.blocks ++ a.singles

/-! ### alignment arithmetic -/

theorem alignUp_mod {a : Nat} (ha : 0 < a) (n : Nat) : alignUp a n % a = 0 := by
  unfold alignUp
  split
  · assumption
  · have h1 := Nat.div_add_mod n a
    have h2 : n % a < a := Nat.mod_lt n ha
    have : n + a - n % a = a * (n / a + 1) := by
      rw [Nat.mul_add, Nat.mul_one]; omega
    rw [this]; exact Nat.mul_mod_right a _

theorem alignUp_of_mod {a n : Nat} (h : n % a = 0) : alignUp a n = n := by simp [alignUp, h]

theorem alignDown_le (a n : Nat) : alignDown a n ≤ n := Nat.div_mul_le_self n a

theorem alignDown_mod (a n : Nat) : alignDown a n % a = 0 := Nat.mul_mod_left _ _

theorem le_alignDown {a x M : Nat} (hx : x % a = 0) (hle : x ≤ M) : x ≤ alignDown a M := by
  unfold alignDown
  have h1 : x / a ≤ M / a := Nat.div_le_div_right hle
  have h2 : x / a * a = x := Nat.div_mul_cancel (Nat.dvd_of_mod_eq_zero hx)
  calc x = x / a * a := h2.symm
    _ ≤ M / a * a := Nat.mul_le_mul_right a h1

/-! ### hypotheses -/

/-- The relation between the sizes that the pinned `allocate` needs: a fresh block of the initial size holds the
largest request that is still sub-allocated (or nothing but empty requests is sub-allocated at all). -/
def Fits (c : Consts) (P : Params) : Prop :=
  alignDown c.align P.maxSub = 0 ∨ alignDown c.align P.maxSub + c.header ≤ P.initial

/-- Same condition for an arbitrary raw block size; trivially true once `allocate` re-checks the fit. -/
def SizeOk (c : Consts) (P : Params) (sz : Nat) : Prop :=
  c.recheck = true ∨ alignDown c.align P.maxSub = 0 ∨ alignDown c.align P.maxSub + c.header ≤ sz

/-- What the environment must guarantee for one operation: the system allocator returns a block that does not
overlap a block the arena still owns; `setMemoryAllocationBlockSize` is given a usable size. -/
def noOverlap (a : Arena) : Option Blk → Prop
  | none => True
  | some b => ∀ o ∈ owned a, BDisj (blk b) (blk o)

def SysOk (c : Consts) (P : Params) (a : Arena) : Op → Prop
  | .alloc n nb => noOverlap a (takes c P a n nb)
  | .setBlock sz => sz ≤ P.maxSub ∨ SizeOk c P sz
  | .release _ => True

def Valid (c : Consts) (P : Params) : Arena → List Op → Prop
  | _, [] => True
  | a, op :: ops => SysOk c P a op ∧ Valid c P (step c P a op) ops

instance (c : Consts) (P : Params) : Decidable (Fits c P) := by unfold Fits; infer_instance
instance (c : Consts) (P : Params) (sz : Nat) : Decidable (SizeOk c P sz) := by unfold SizeOk; infer_instance
instance (a : Arena) : ∀ ob, Decidable (noOverlap a ob)
  | none => isTrue trivial
  | some b => inferInstanceAs (Decidable (∀ o ∈ owned a, BDisj (blk b) (blk o)))
instance (c : Consts) (P : Params) (a : Arena) : ∀ op, Decidable (SysOk c P a op)
  | .alloc n nb => inferInstanceAs (Decidable (noOverlap a (takes c P a n nb)))
  | .setBlock sz => inferInstanceAs (Decidable (sz ≤ P.maxSub ∨ SizeOk c P sz))
  | .release _ => isTrue trivial
instance decValid (c : Consts) (P : Params) : ∀ a ops, Decidable (Valid c P a ops)
  | _, [] => isTrue trivial
  | a, op :: ops => @instDecidableAnd _ _ _ (decValid c P (step c P a op) ops)

theorem sysOk_alloc {c : Consts} {P : Params} {a : Arena} {n nb : Nat} (h : SysOk c P a (.alloc n nb)) :
    ∀ b, takes c P a n nb = some b → ∀ o ∈ owned a, BDisj (blk b) (blk o) := by
  intro b hb
  simp only [SysOk, hb, noOverlap] at h
  exact h

structure AInv (c : Consts) (P : Params) (a : Arena) : Prop where
  inside : ∀ r ∈ a.subs, r.2 > 0 → ∃ b ∈ owned a, Inside c.header (blk b) r
  disj : a.subs.Pairwise RDisj
  cross : ∀ x ∈ a.blocks, ∀ y ∈ a.singles, BDisj (blk x) (blk y)
  cur : a.freeRem = 0 ∨ ∃ b rest, a.blocks = b :: rest ∧ b.start + c.header ≤ a.freePtr ∧
          a.freePtr + a.freeRem ≤ b.start + b.size
  free : ∀ r ∈ a.subs, r.2 = 0 ∨ a.freeRem = 0 ∨ r.1 + r.2 ≤ a.freePtr ∨ a.freePtr + a.freeRem ≤ r.1
  single : ∀ b ∈ a.singles, ∀ r ∈ a.subs, r.2 > 0 → Inside c.header (blk b) r → r.1 = b.start + c.header
  size : SizeOk c P a.heapSize

theorem ainv_init (c : Consts) (P : Params) (h : SizeOk c P P.initial) : AInv c P (init P) := by
  refine ⟨?_, ?_, ?_, Or.inl rfl, ?_, ?_, h⟩ <;> simp [init]

theorem bdisj_symm {x y : Block} (h : BDisj x y) : BDisj y x := Or.symm h

/-- unfold the interval predicates everywhere and finish by linear arithmetic -/
macro "ar" : tactic =>
  `(tactic| ((try simp only [Inside, BDisj, RDisj, blk, gt_iff_lt] at *); (try dsimp only at *); omega))

/-! ### the pieces of `allocate` -/

/-- take a fresh raw block for sub-allocation -/
def newBlock (c : Consts) (P : Params) (a : Arena) (nb : Nat) : Arena :=
  { a with blocks := ⟨nb, a.heapSize⟩ :: a.blocks, freePtr := nb + c.header, freeRem := a.heapSize - c.header,
           heapSize := if a.heapSize < P.max then a.heapSize * c.grow else a.heapSize }

/-- subdivide the request off the current block -/
def carve (a : Arena) (am : Nat) : Arena :=
  { a with freePtr := a.freePtr + am, freeRem := a.freeRem - am, subs := (a.freePtr, am) :: a.subs }

def insert2 (b : Blk) : List Blk → List Blk
  | [] => [b]
  | h :: t => h :: b :: t

def single (c : Consts) (a : Arena) (am nb : Nat) : Arena :=
  { a with singles := insert2 ⟨nb, c.header + am⟩ a.singles, subs := (nb + c.header, am) :: a.subs }

theorem allocate_eq (c : Consts) (P : Params) (a : Arena) (n nb : Nat) :
    (allocate c P a n nb).1 =
      if oversize c P a (alignUp c.align n) then single c a (alignUp c.align n) nb
      else if alignUp c.align n > a.freeRem then carve (newBlock c P a nb) (alignUp c.align n)
      else carve a (alignUp c.align n) := by
  unfold allocate
  simp only
  split
  · simp only [single, insert2]
    cases a.singles <;> rfl
  · split <;> rfl

theorem mem_insert2 {b x : Blk} {l : List Blk} : x ∈ insert2 b l ↔ x = b ∨ x ∈ l := by
  cases l with
  | nil => simp [insert2]
  | cons h t =>
    simp [insert2]
    constructor
    · rintro (h | h | h)
      · exact Or.inr (Or.inl h)
      · exact Or.inl h
      · exact Or.inr (Or.inr h)
    · rintro (h | h | h)
      · exact Or.inr (Or.inl h)
      · exact Or.inl h
      · exact Or.inr (Or.inr h)

theorem ainv_carve {c : Consts} {P : Params} {a : Arena} (w : AInv c P a) (am : Nat) (hle : am ≤ a.freeRem) :
    AInv c P (carve a am) := by
  have hcur := w.cur
  refine ⟨?_, ?_, ?_, ?_, ?_, ?_, w.size⟩
  · intro r hr hpos
    simp only [carve, List.mem_cons] at hr
    rcases hr with rfl | hr
    · rcases hcur with h0 | ⟨b, rest, hb, h1, h2⟩
      · ar
      · refine ⟨b, by simp [owned, carve, hb], ?_⟩
        constructor <;> ar
    · obtain ⟨b, hb, hin⟩ := w.inside r hr hpos
      exact ⟨b, by simpa [owned, carve] using hb, hin⟩
  · simp only [carve]
    refine List.pairwise_cons.mpr ⟨?_, w.disj⟩
    intro r hr
    have := w.free r hr
    ar
  · exact w.cross
  · simp only [carve]
    rcases hcur with h0 | ⟨b, rest, hb, h1, h2⟩
    · left; omega
    · right; exact ⟨b, rest, hb, by omega, by omega⟩
  · intro r hr
    simp only [carve, List.mem_cons] at hr ⊢
    rcases hr with rfl | hr
    · ar
    · have := w.free r hr
      omega
  · intro b hb r hr hpos hin
    simp only [carve, List.mem_cons] at hr hb
    rcases hr with rfl | hr
    · exfalso
      rcases hcur with h0 | ⟨b0, rest, hb0, h1, h2⟩
      · ar
      · have := w.cross b0 (by simp [hb0]) b hb
        ar
    · exact w.single b hb r hr hpos hin

theorem ainv_newBlock {c : Consts} {P : Params} {a : Arena} (w : AInv c P a) (hg : 1 ≤ c.grow) (nb : Nat)
    (hsys : ∀ o ∈ owned a, BDisj (blk ⟨nb, a.heapSize⟩) (blk o)) : AInv c P (newBlock c P a nb) := by
  refine ⟨?_, w.disj, ?_, ?_, ?_, ?_, ?_⟩
  · intro r hr hpos
    obtain ⟨b, hb, hin⟩ := w.inside r hr hpos
    exact ⟨b, by simp only [owned, newBlock] at hb ⊢; simp [hb], hin⟩
  · intro x hx y hy
    simp only [newBlock, List.mem_cons] at hx hy
    rcases hx with rfl | hx
    · exact hsys y (by simp [owned, hy])
    · exact w.cross x hx y hy
  · simp only [newBlock]
    by_cases h : a.heapSize - c.header = 0
    · exact Or.inl h
    · exact Or.inr ⟨⟨nb, a.heapSize⟩, a.blocks, rfl, by ar, by ar⟩
  · intro r hr
    simp only [newBlock] at hr ⊢
    by_cases hz : r.2 = 0
    · exact Or.inl hz
    · obtain ⟨b, hb, hin⟩ := w.inside r hr (by omega)
      have := hsys b hb
      ar
  · intro b hb r hr hpos hin
    exact w.single b hb r hr hpos hin
  · have hs := w.size
    simp only [newBlock]
    unfold SizeOk at hs ⊢
    rcases hs with h | h | h
    · exact Or.inl h
    · exact Or.inr (Or.inl h)
    · right; right
      split
      · have : a.heapSize ≤ a.heapSize * c.grow := Nat.le_mul_of_pos_right _ hg
        omega
      · exact h

theorem ainv_single {c : Consts} {P : Params} {a : Arena} (w : AInv c P a) (am nb : Nat)
    (hsys : ∀ o ∈ owned a, BDisj (blk ⟨nb, c.header + am⟩) (blk o)) : AInv c P (single c a am nb) := by
  have hcur := w.cur
  refine ⟨?_, ?_, ?_, ?_, ?_, ?_, w.size⟩
  · intro r hr hpos
    simp only [single, List.mem_cons] at hr
    rcases hr with rfl | hr
    · refine ⟨⟨nb, c.header + am⟩, by simp [owned, single, mem_insert2], ?_⟩
      constructor <;> ar
    · obtain ⟨b, hb, hin⟩ := w.inside r hr hpos
      refine ⟨b, ?_, hin⟩
      simp only [owned, single, List.mem_append, mem_insert2] at hb ⊢
      rcases hb with hb | hb
      · exact Or.inl hb
      · exact Or.inr (Or.inr hb)
  · simp only [single]
    refine List.pairwise_cons.mpr ⟨?_, w.disj⟩
    intro r hr
    by_cases hz : r.2 = 0
    · exact Or.inr (Or.inl hz)
    · obtain ⟨b, hb, hin⟩ := w.inside r hr (by omega)
      have := hsys b hb
      ar
  · intro x hx y hy
    simp only [single, mem_insert2] at hx hy
    rcases hy with rfl | hy
    · exact bdisj_symm (hsys x (by simp [owned, hx]))
    · exact w.cross x hx y hy
  · exact hcur
  · intro r hr
    simp only [single, List.mem_cons] at hr ⊢
    rcases hr with rfl | hr
    · rcases hcur with h0 | ⟨b0, rest, hb0, h1, h2⟩
      · exact Or.inr (Or.inl h0)
      · have := hsys b0 (by simp [owned, hb0])
        ar
    · exact w.free r hr
  · intro b hb r hr hpos hin
    simp only [single, List.mem_cons, mem_insert2] at hr hb
    rcases hb with rfl | hb
    · rcases hr with rfl | hr
      · rfl
      · exfalso
        obtain ⟨o, ho, hino⟩ := w.inside r hr hpos
        have := hsys o ho
        ar
    · rcases hr with rfl | hr
      · exfalso
        have := hsys b (by simp [owned, hb])
        ar
      · exact w.single b hb r hr hpos hin

theorem removeFirst_sub {hdr ptr : Nat} : ∀ {l l' : List Blk}, removeFirst hdr ptr l = some l' → ∀ x ∈ l', x ∈ l := by
  intro l
  induction l with
  | nil => intro l' h; simp [removeFirst] at h
  | cons b t ih =>
    intro l' h x hx
    simp only [removeFirst] at h
    split at h
    · cases h; exact List.mem_cons_of_mem _ hx
    · cases hr : removeFirst hdr ptr t with
      | none => simp [hr] at h
      | some t' =>
        simp [hr] at h
        subst h
        rcases List.mem_cons.mp hx with rfl | hx
        · exact List.mem_cons_self
        · exact List.mem_cons_of_mem _ (ih hr x hx)

theorem removeFirst_keep {hdr ptr : Nat} : ∀ {l l' : List Blk}, removeFirst hdr ptr l = some l' →
    ∀ x ∈ l, x.start + hdr ≠ ptr → x ∈ l' := by
  intro l
  induction l with
  | nil => intro l' h; simp [removeFirst] at h
  | cons b t ih =>
    intro l' h x hx hne
    simp only [removeFirst] at h
    split at h
    · cases h
      rcases List.mem_cons.mp hx with rfl | hx
      · rename_i heq; exact (hne heq).elim
      · exact hx
    · cases hr : removeFirst hdr ptr t with
      | none => simp [hr] at h
      | some t' =>
        simp [hr] at h
        subst h
        rcases List.mem_cons.mp hx with rfl | hx
        · exact List.mem_cons_self
        · exact List.mem_cons_of_mem _ (ih hr x hx hne)

theorem ainv_release {c : Consts} {P : Params} {a : Arena} (w : AInv c P a) (ptr : Nat) :
    AInv c P (release c a ptr) := by
  unfold release
  cases hr : removeFirst c.header ptr a.singles with
  | none => exact w
  | some s' =>
    simp only
    refine ⟨?_, ?_, ?_, w.cur, ?_, ?_, w.size⟩
    · intro r hr' hpos
      simp only [List.mem_filter] at hr'
      obtain ⟨hr', hne⟩ := hr'
      have hne' : r.1 ≠ ptr := by simpa using hne
      obtain ⟨b, hb, hin⟩ := w.inside r hr' hpos
      refine ⟨b, ?_, hin⟩
      simp only [owned, List.mem_append] at hb ⊢
      rcases hb with hb | hb
      · exact Or.inl hb
      · right
        have := w.single b hb r hr' hpos hin
        exact removeFirst_keep hr b hb (by omega)
    · exact w.disj.sublist List.filter_sublist
    · intro x hx y hy
      exact w.cross x hx y (removeFirst_sub hr y hy)
    · intro r hr'
      exact w.free r (List.mem_filter.mp hr').1
    · intro b hb r hr' hpos hin
      exact w.single b (removeFirst_sub hr b hb) r (List.mem_filter.mp hr').1 hpos hin

theorem ainv_setBlock {c : Consts} {P : Params} {a : Arena} (w : AInv c P a) (sz : Nat)
    (h : sz ≤ P.maxSub ∨ SizeOk c P sz) : AInv c P (setBlockSize P a sz) := by
  unfold setBlockSize
  split
  · rename_i hgt
    rcases h with h | h
    · omega
    · exact ⟨w.inside, w.disj, w.cross, w.cur, w.free, w.single, h⟩
  · exact w

theorem ainv_step {c : Consts} {P : Params} {a : Arena} (hal : 0 < c.align) (hg : 1 ≤ c.grow) (w : AInv c P a)
    (op : Op) (hs : SysOk c P a op) : AInv c P (step c P a op) := by
  cases op with
  | release p => exact ainv_release w p
  | setBlock sz => exact ainv_setBlock w sz hs
  | alloc n nb =>
    simp only [step, allocate_eq]
    replace hs := sysOk_alloc hs
    simp only [takes] at hs
    by_cases ho : oversize c P a (alignUp c.align n) = true
    · simp only [ho, if_true] at hs ⊢
      exact ainv_single w _ nb (hs _ rfl)
    · simp only [ho] at hs ⊢
      by_cases hgt : alignUp c.align n > a.freeRem
      · simp only [hgt, if_true] at hs ⊢
        have hsys := hs _ rfl
        have w1 := ainv_newBlock w hg nb hsys
        refine ainv_carve w1 _ ?_
        -- the request fits into the fresh block
        simp only [newBlock]
        have hmod := alignUp_mod hal n
        simp only [oversize, Bool.or_eq_true, Bool.and_eq_true, decide_eq_true_eq, not_or, not_and] at ho
        obtain ⟨ho1, ho2⟩ := ho
        rcases w.size with hrc | hz | hsz
        · have := ho2 ⟨hrc, hgt⟩
          omega
        · have := le_alignDown hmod (Nat.le_of_not_gt ho1)
          omega
        · have := le_alignDown hmod (Nat.le_of_not_gt ho1)
          omega
      · simp only [hgt, if_false] at hs ⊢
        exact ainv_carve w _ (Nat.le_of_not_gt hgt)

theorem ainv_run {c : Consts} {P : Params} (hal : 0 < c.align) (hg : 1 ≤ c.grow) (ops : List Op) :
    ∀ a, AInv c P a → Valid c P a ops → AInv c P (run c P a ops) := by
  induction ops with
  | nil => intro a w _; exact w
  | cons op ops ih =>
    intro a w hv
    exact ih _ (ainv_step hal hg w op hv.1) hv.2

theorem ainv_ok {c : Consts} {P : Params} {a : Arena} (w : AInv c P a) :
    ArenaOk c.header ((owned a).map blk) a.subs := by
  refine ⟨?_, w.disj⟩
  intro r hr hpos
  obtain ⟨b, hb, hin⟩ := w.inside r hr hpos
  exact ⟨blk b, List.mem_map.mpr ⟨b, hb, rfl⟩, hin⟩

/-- the executable judge used by the driver agrees with the declarative `ArenaOk` -/
theorem pairwiseB_iff {α} (p : α → α → Bool) (l : List α) : pairwiseB p l = true ↔ l.Pairwise (fun x y => p x y = true) := by
  induction l with
  | nil => simp [pairwiseB]
  | cons x xs ih => simp [pairwiseB, ih, List.pairwise_cons]

theorem regionsOk_iff (hdr : Nat) (bs : List Block) (rs : List Region) :
    regionsOk hdr bs rs = true ↔ ArenaOk hdr bs rs := by
  unfold regionsOk ArenaOk
  rw [Bool.and_eq_true, pairwiseB_iff]
  constructor
  · rintro ⟨h1, h2⟩
    refine ⟨?_, ?_⟩
    · intro r hr hpos
      have := List.all_eq_true.mp h1 r hr
      simp only [Bool.or_eq_true, beq_iff_eq, List.any_eq_true, decide_eq_true_eq] at this
      rcases this with h | h
      · omega
      · exact h
    · exact h2.imp (by intro a b h; simpa using h)
  · rintro ⟨h1, h2⟩
    refine ⟨?_, ?_⟩
    · apply List.all_eq_true.mpr
      intro r hr
      by_cases hz : r.2 = 0
      · simp [hz]
      · have := h1 r hr (by omega)
        simp only [Bool.or_eq_true, beq_iff_eq, List.any_eq_true, decide_eq_true_eq]
        exact Or.inr this
    · exact h2.imp (by intro a b h; simpa using h)

end XV.Lemmas.Arena
