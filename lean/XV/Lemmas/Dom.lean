/-
Helper lemmas for C13 (reference DOM): store API, the well-formedness invariant `WF`, and its preservation by the
generic mutation primitives of XV.Model.Dom (alloc, moveNodes, detach, killNodes, setDataOf, setNameOf, unlinkAttr,
linkAttr).  No Mathlib.
-/
import XV.Model.Dom
import XV.Spec.Dom
namespace XV.Lemmas.Dom
open XV.Model.Dom XV.Spec.Dom

-- ------------------------------------------------------------------ store API
theorem get_mapNodes (s : Store) (f : NodeId → NodeRec → Option NodeRec) (i : NodeId) :
    (s.mapNodes f).get i = (s.get i).bind (f i) := by
  unfold Store.mapNodes Store.get
  simp only [Array.getElem?_mapIdx]
  cases s.nodes[i]? with
  | none => rfl
  | some o => cases o <;> rfl

theorem size_mapNodes (s : Store) (f) : (s.mapNodes f).size = s.size := by
  simp [Store.mapNodes, Store.size]

theorem get_ge_size (s : Store) (i : NodeId) (h : s.size ≤ i) : s.get i = none := by
  unfold Store.get
  unfold Store.size at h
  rw [Array.getElem?_eq_none h]; rfl

theorem lt_size_of_get (s : Store) (i : NodeId) (r : NodeRec) (h : s.get i = some r) : i < s.size := by
  apply Classical.byContradiction; intro hn
  rw [get_ge_size s i (Nat.le_of_not_lt hn)] at h; cases h

theorem get_alloc (s : Store) (r : NodeRec) (i : NodeId) :
    (s.alloc r).1.get i = if i = s.size then some r else s.get i := by
  unfold Store.alloc Store.get Store.size
  simp only [Array.getElem?_push]
  split <;> rfl

theorem size_alloc (s : Store) (r : NodeRec) : (s.alloc r).1.size = s.size + 1 := by
  simp [Store.alloc, Store.size]

theorem alloc_snd (s : Store) (r : NodeRec) : (s.alloc r).2 = s.size := rfl

-- ------------------------------------------------------------------ list / ancestor helpers
theorem contains_iff (l : List NodeId) (x : NodeId) : l.contains x = true ↔ x ∈ l := by
  simp

theorem mem_spliceBefore (r : NodeId) (ms l : List NodeId) (x : NodeId) :
    x ∈ spliceBefore r ms l ↔ x ∈ ms ∨ x ∈ l := by
  induction l with
  | nil => simp [spliceBefore]
  | cons y ys ih =>
    unfold spliceBefore
    split
    · simp
    · simp [ih]; constructor
      · rintro (h | h | h) <;> simp [h]
      · rintro (h | h | h) <;> simp [h]

theorem mem_insertAt (ref : Option NodeId) (ms l : List NodeId) (x : NodeId) :
    x ∈ insertAt ref ms l ↔ x ∈ ms ∨ x ∈ l := by
  cases ref with
  | none => simp [insertAt]; exact Or.comm
  | some r => simp [insertAt, mem_spliceBefore]

theorem nodup_spliceBefore (r : NodeId) (ms l : List NodeId) (hl : l.Nodup) (hm : ms.Nodup)
    (hd : ∀ x, x ∈ ms → x ∉ l) : (spliceBefore r ms l).Nodup := by
  induction l with
  | nil => simpa [spliceBefore]
  | cons y ys ih =>
    unfold spliceBefore
    have hy := (List.nodup_cons.mp hl)
    split
    · rw [List.nodup_append]
      refine ⟨hm, hl, ?_⟩
      intro a ha b hb hab
      subst hab
      exact hd a ha hb
    · rw [List.nodup_cons]
      refine ⟨?_, ih hy.2 (fun x hx h => hd x hx (List.mem_cons_of_mem _ h))⟩
      rw [mem_spliceBefore]
      rintro (h | h)
      · exact hd y h (List.mem_cons_self)
      · exact hy.1 h

theorem nodup_insertAt (ref : Option NodeId) (ms l : List NodeId) (hl : l.Nodup) (hm : ms.Nodup)
    (hd : ∀ x, x ∈ ms → x ∉ l) : (insertAt ref ms l).Nodup := by
  cases ref with
  | none =>
    simp only [insertAt]
    rw [List.nodup_append]
    refine ⟨hl, hm, ?_⟩
    intro a ha b hb hab
    subst hab
    exact hd a hb ha
  | some r => exact nodup_spliceBefore r ms l hl hm hd

theorem get_moveNodes (s : Store) (ms : List NodeId) (p : NodeId) (ref : Option NodeId) (i : NodeId) :
    (moveNodes s ms p ref).get i = (s.get i).map (fun r =>
      { r with
        children :=
          if i = p then insertAt ref ms (r.children.filter (fun c => !ms.contains c))
          else r.children.filter (fun c => !ms.contains c)
        parent := if ms.contains i then some p else r.parent }) := by
  unfold moveNodes
  rw [get_mapNodes]
  cases s.get i <;> rfl

theorem parentOf_eq (s : Store) (c : NodeId) (rc : NodeRec) (q : NodeId) (h : s.get c = some rc)
    (hp : rc.parent = some q) : parentOf s c = some q := by
  simp [parentOf, h, hp]

theorem anc_up (s : Store) (c p q : NodeId) (h : AncOrSelf s c p) (hq : parentOf s c = some q) :
    AncOrSelf s q p := by
  induction h with
  | refl => exact .step hq .refl
  | step hx _ ih => exact .step hx ih

def sumRank (rank : NodeId → Nat) : List NodeId → Nat
  | [] => 0
  | x :: xs => rank x + sumRank rank xs

theorem le_sumRank (rank : NodeId → Nat) (l : List NodeId) (x : NodeId) (h : x ∈ l) : rank x ≤ sumRank rank l := by
  induction l with
  | nil => cases h
  | cons y ys ih =>
    simp only [sumRank]
    rcases List.mem_cons.mp h with rfl | h
    · omega
    · have := ih h; omega

theorem nameOf_congr (s s' : Store) (h : ∀ x, (s'.get x).map (·.name) = (s.get x).map (·.name)) :
    nameOf s' = nameOf s := by
  funext x
  have := h x
  unfold nameOf
  cases h1 : s'.get x <;> cases h2 : s.get x <;> simp [h1, h2] at this ⊢
  exact this

-- ------------------------------------------------------------------ moveNodes
theorem wf_moveNodes (s : Store) (h : WF s) (ms : List NodeId) (p : NodeId) (ref : Option NodeId)
    (rp : NodeRec) (hp : s.get p = some rp)
    (hms : ∀ m, m ∈ ms → ∃ rm, s.get m = some rm ∧ rm.owner = rp.owner ∧ rm.kind ≠ .document ∧
      rm.kind ≠ .attr ∧ ¬ AncOrSelf s m p)
    (hnd : ms.Nodup) : WF (moveNodes s ms p ref) := by
  have hg := get_moveNodes s ms p ref
  have hname : nameOf (moveNodes s ms p ref) = nameOf s := by
    apply nameOf_congr; intro x; rw [hg]; cases s.get x <;> rfl
  constructor
  · -- childParent
    intro p' r' c hp' hc
    rw [hg] at hp'
    cases hr : s.get p' with
    | none => rw [hr] at hp'; cases hp'
    | some r =>
      rw [hr] at hp'; simp only [Option.map_some, Option.some.injEq] at hp'
      subst hp'
      simp only at hc
      by_cases hcm : c ∈ ms
      · have hpp : p' = p := by
          apply Classical.byContradiction; intro hne
          rw [if_neg hne] at hc
          simp [hcm] at hc
        obtain ⟨rm, hrm, _⟩ := hms c hcm
        refine ⟨_, by rw [hg, hrm]; rfl, ?_⟩
        simp [hcm, hpp]
      · have hc' : c ∈ r.children := by
          split at hc
          · rw [mem_insertAt] at hc
            rcases hc with hc | hc
            · exact absurd hc hcm
            · exact (List.mem_filter.mp hc).1
          · exact (List.mem_filter.mp hc).1
        obtain ⟨rc, hrc, hpar⟩ := h.childParent p' r c hr hc'
        refine ⟨_, by rw [hg, hrc]; rfl, ?_⟩
        simp [hcm, hpar]
  · -- parentChild
    intro c rc' q hc hq
    rw [hg] at hc
    cases hr : s.get c with
    | none => rw [hr] at hc; cases hc
    | some rc =>
      rw [hr] at hc; simp only [Option.map_some, Option.some.injEq] at hc
      subst hc
      simp only at hq
      by_cases hcm : c ∈ ms
      · simp [hcm] at hq
        subst hq
        refine ⟨_, by rw [hg, hp]; rfl, ?_⟩
        simp [mem_insertAt, hcm]
      · simp [hcm] at hq
        obtain ⟨r, hr', hmem⟩ := h.parentChild c rc q hr hq
        refine ⟨_, by rw [hg, hr']; rfl, ?_⟩
        have : c ∈ r.children.filter (fun c => !ms.contains c) := by
          simp [List.mem_filter, hmem, hcm]
        simp only
        split
        · rw [mem_insertAt]; exact Or.inr this
        · exact this
  · -- nodup
    intro p' r' hp'
    rw [hg] at hp'
    cases hr : s.get p' with
    | none => rw [hr] at hp'; cases hp'
    | some r =>
      rw [hr] at hp'; simp only [Option.map_some, Option.some.injEq] at hp'
      subst hp'
      have hf : (r.children.filter (fun c => !ms.contains c)).Nodup := (h.nodupChildren p' r hr).filter _
      simp only
      split
      · apply nodup_insertAt _ _ _ hf hnd
        intro x hx hx'
        have := (List.mem_filter.mp hx').2
        simp [hx] at this
      · exact hf
  · -- acyclic
    obtain ⟨rank, hrank⟩ := h.acyclic
    classical
    refine ⟨fun x => rank x + (if AncOrSelf s x p then 1 + sumRank rank ms else 0), ?_⟩
    intro c rc' q hc hq
    rw [hg] at hc
    cases hr : s.get c with
    | none => rw [hr] at hc; cases hc
    | some rc =>
      rw [hr] at hc; simp only [Option.map_some, Option.some.injEq] at hc
      subst hc
      simp only at hq
      by_cases hcm : c ∈ ms
      · simp [hcm] at hq
        subst hq
        obtain ⟨rm, hrm, _, _, _, hna⟩ := hms c hcm
        have := le_sumRank rank ms c hcm
        simp only [if_neg hna, if_pos (AncOrSelf.refl : AncOrSelf s p p)]
        omega
      · simp [hcm] at hq
        have hlt := hrank c rc q hr hq
        by_cases ha : AncOrSelf s c p
        · have := anc_up s c p q ha (parentOf_eq s c rc q hr hq)
          simp only [if_pos ha, if_pos this]; omega
        · simp only [if_neg ha]; split <;> omega
  · -- ownerDoc
    intro i r' hi
    rw [hg] at hi
    cases hr : s.get i with
    | none => rw [hr] at hi; cases hi
    | some r =>
      rw [hr] at hi; simp only [Option.map_some, Option.some.injEq] at hi
      subst hi
      obtain ⟨rd, hrd, hk, ho⟩ := h.ownerDoc i r hr
      refine ⟨_, by rw [hg, hrd]; rfl, ?_, ?_⟩
      · exact hk
      · exact ho
  · -- docSelf
    intro i r' hi hk
    rw [hg] at hi
    cases hr : s.get i with
    | none => rw [hr] at hi; cases hi
    | some r =>
      rw [hr] at hi; simp only [Option.map_some, Option.some.injEq] at hi
      subst hi
      exact h.docSelf i r hr hk
  · -- ownerUniform
    intro c rc' q rq' hc hq hq'
    rw [hg] at hc hq'
    cases hr : s.get c with
    | none => rw [hr] at hc; cases hc
    | some rc =>
      rw [hr] at hc; simp only [Option.map_some, Option.some.injEq] at hc
      subst hc
      cases hrq : s.get q with
      | none => rw [hrq] at hq'; cases hq'
      | some rq =>
        rw [hrq] at hq'; simp only [Option.map_some, Option.some.injEq] at hq'
        subst hq'
        simp only at hq ⊢
        by_cases hcm : c ∈ ms
        · simp [hcm] at hq
          subst hq
          obtain ⟨rm, hrm, ho, _⟩ := hms c hcm
          rw [hr] at hrm; cases hrm
          rw [hp] at hrq; cases hrq
          exact ho
        · simp [hcm] at hq
          exact h.ownerUniform c rc q rq hr hq hrq
  · -- rootKinds
    intro i r' hi hk
    rw [hg] at hi
    cases hr : s.get i with
    | none => rw [hr] at hi; cases hi
    | some r =>
      rw [hr] at hi; simp only [Option.map_some, Option.some.injEq] at hi
      subst hi
      simp only at hk ⊢
      by_cases hcm : i ∈ ms
      · obtain ⟨rm, hrm, _, hd, ha, _⟩ := hms i hcm
        rw [hr] at hrm; cases hrm
        rcases hk with hk | hk
        · exact absurd hk hd
        · exact absurd hk ha
      · simp [hcm]; exact h.rootKinds i r hr hk
  · -- attrLink
    intro e re' a he ha
    rw [hg] at he
    cases hr : s.get e with
    | none => rw [hr] at he; cases he
    | some re =>
      rw [hr] at he; simp only [Option.map_some, Option.some.injEq] at he
      subst he
      obtain ⟨ra, hra, h1, h2, h3⟩ := h.attrLink e re a hr ha
      refine ⟨_, by rw [hg, hra]; rfl, ?_, ?_, ?_⟩
      · exact h1
      · exact h2
      · exact h3
  · -- attrBack
    intro a ra' e ha he
    rw [hg] at ha
    cases hr : s.get a with
    | none => rw [hr] at ha; cases ha
    | some ra =>
      rw [hr] at ha; simp only [Option.map_some, Option.some.injEq] at ha
      subst ha
      obtain ⟨re, hre, hm⟩ := h.attrBack a ra e hr he
      refine ⟨_, by rw [hg, hre]; rfl, ?_⟩
      exact hm
  · -- attrSorted
    intro e re' he
    rw [hg] at he
    cases hr : s.get e with
    | none => rw [hr] at he; cases he
    | some re =>
      rw [hr] at he; simp only [Option.map_some, Option.some.injEq] at he
      subst he
      rw [hname]
      exact h.attrSorted e re hr
  · -- attrsElem
    intro e re' he hne
    rw [hg] at he
    cases hr : s.get e with
    | none => rw [hr] at he; cases he
    | some re =>
      rw [hr] at he; simp only [Option.map_some, Option.some.injEq] at he
      subst he
      exact h.attrsElem e re hr hne

-- ------------------------------------------------------------------ frames
/-- stores related by a total pointwise rewrite -/
theorem get_map_some {s s' : Store} {F : NodeId → NodeRec → NodeRec}
    (hg : ∀ i, s'.get i = (s.get i).map (F i)) {i : NodeId} {r' : NodeRec} (h : s'.get i = some r') :
    ∃ r, s.get i = some r ∧ r' = F i r := by
  rw [hg] at h
  cases hr : s.get i with
  | none => rw [hr] at h; cases h
  | some r => rw [hr] at h; exact ⟨r, rfl, by simpa using h.symm⟩

theorem get_map_of {s s' : Store} {F : NodeId → NodeRec → NodeRec}
    (hg : ∀ i, s'.get i = (s.get i).map (F i)) {i : NodeId} {r : NodeRec} (h : s.get i = some r) :
    s'.get i = some (F i r) := by rw [hg, h]; rfl

structure TreeWF (s : Store) : Prop where
  childParent : ∀ p r c, s.get p = some r → c ∈ r.children → ∃ rc, s.get c = some rc ∧ rc.parent = some p
  parentChild : ∀ c rc p, s.get c = some rc → rc.parent = some p → ∃ r, s.get p = some r ∧ c ∈ r.children
  nodupChildren : ∀ p r, s.get p = some r → r.children.Nodup
  acyclic : ∃ rank : NodeId → Nat, ∀ c rc p, s.get c = some rc → rc.parent = some p → rank c < rank p
  ownerUniform : ∀ c rc p rp, s.get c = some rc → rc.parent = some p → s.get p = some rp → rc.owner = rp.owner
  rootKinds : ∀ i r, s.get i = some r → r.kind = .document ∨ r.kind = .attr → r.parent = none

structure DocWF (s : Store) : Prop where
  ownerDoc : ∀ i r, s.get i = some r → ∃ rd, s.get r.owner = some rd ∧ rd.kind = .document ∧ rd.owner = r.owner
  docSelf : ∀ i r, s.get i = some r → r.kind = .document → r.owner = i

structure AttrWF (s : Store) : Prop where
  attrLink : ∀ e re a, s.get e = some re → a ∈ re.attrs →
    ∃ ra, s.get a = some ra ∧ ra.kind = .attr ∧ ra.ownerElem = some e ∧ ra.owner = re.owner
  attrBack : ∀ a ra e, s.get a = some ra → ra.ownerElem = some e → ∃ re, s.get e = some re ∧ a ∈ re.attrs
  attrSorted : ∀ e re, s.get e = some re → (re.attrs.map (nameOf s)).Pairwise (fun x y => nameLt x y = true)
  attrsElem : ∀ e re, s.get e = some re → re.attrs ≠ [] → re.kind = .element

theorem wf_parts (s : Store) : WF s ↔ TreeWF s ∧ DocWF s ∧ AttrWF s := by
  constructor
  · intro h
    exact ⟨⟨h.childParent, h.parentChild, h.nodupChildren, h.acyclic, h.ownerUniform, h.rootKinds⟩,
      ⟨h.ownerDoc, h.docSelf⟩, ⟨h.attrLink, h.attrBack, h.attrSorted, h.attrsElem⟩⟩
  · rintro ⟨t, d, a⟩
    exact ⟨t.childParent, t.parentChild, t.nodupChildren, t.acyclic, d.ownerDoc, d.docSelf, t.ownerUniform,
      t.rootKinds, a.attrLink, a.attrBack, a.attrSorted, a.attrsElem⟩

theorem treeWF_frame {s s' : Store} {F : NodeId → NodeRec → NodeRec}
    (hg : ∀ i, s'.get i = (s.get i).map (F i))
    (hF : ∀ i r, (F i r).parent = r.parent ∧ (F i r).children = r.children ∧ (F i r).owner = r.owner ∧
      (F i r).kind = r.kind) (h : TreeWF s) : TreeWF s' := by
  constructor
  · intro p r' c hp hc
    obtain ⟨r, hr, rfl⟩ := get_map_some hg hp
    rw [(hF p r).2.1] at hc
    obtain ⟨rc, hrc, hpar⟩ := h.childParent p r c hr hc
    exact ⟨_, get_map_of hg hrc, by rw [(hF c rc).1]; exact hpar⟩
  · intro c rc' p hc hp
    obtain ⟨rc, hrc, rfl⟩ := get_map_some hg hc
    rw [(hF c rc).1] at hp
    obtain ⟨r, hr, hm⟩ := h.parentChild c rc p hrc hp
    exact ⟨_, get_map_of hg hr, by rw [(hF p r).2.1]; exact hm⟩
  · intro p r' hp
    obtain ⟨r, hr, rfl⟩ := get_map_some hg hp
    rw [(hF p r).2.1]; exact h.nodupChildren p r hr
  · obtain ⟨rank, hrank⟩ := h.acyclic
    refine ⟨rank, ?_⟩
    intro c rc' p hc hp
    obtain ⟨rc, hrc, rfl⟩ := get_map_some hg hc
    rw [(hF c rc).1] at hp
    exact hrank c rc p hrc hp
  · intro c rc' p rp' hc hp hp'
    obtain ⟨rc, hrc, rfl⟩ := get_map_some hg hc
    obtain ⟨rp, hrp, rfl⟩ := get_map_some hg hp'
    rw [(hF c rc).1] at hp
    rw [(hF c rc).2.2.1, (hF p rp).2.2.1]
    exact h.ownerUniform c rc p rp hrc hp hrp
  · intro i r' hi hk
    obtain ⟨r, hr, rfl⟩ := get_map_some hg hi
    rw [(hF i r).2.2.2] at hk
    rw [(hF i r).1]; exact h.rootKinds i r hr hk

theorem docWF_frame {s s' : Store} {F : NodeId → NodeRec → NodeRec}
    (hg : ∀ i, s'.get i = (s.get i).map (F i))
    (hF : ∀ i r, (F i r).owner = r.owner ∧ (F i r).kind = r.kind) (h : DocWF s) : DocWF s' := by
  constructor
  · intro i r' hi
    obtain ⟨r, hr, rfl⟩ := get_map_some hg hi
    obtain ⟨rd, hrd, hk, ho⟩ := h.ownerDoc i r hr
    rw [(hF i r).1]
    refine ⟨_, get_map_of hg hrd, ?_, ?_⟩
    · rw [(hF _ rd).2]; exact hk
    · rw [(hF _ rd).1]; exact ho
  · intro i r' hi hk
    obtain ⟨r, hr, rfl⟩ := get_map_some hg hi
    rw [(hF i r).2] at hk
    rw [(hF i r).1]; exact h.docSelf i r hr hk

theorem attrWF_frame {s s' : Store} {F : NodeId → NodeRec → NodeRec}
    (hg : ∀ i, s'.get i = (s.get i).map (F i))
    (hF : ∀ i r, (F i r).attrs = r.attrs ∧ (F i r).ownerElem = r.ownerElem ∧ (F i r).name = r.name ∧
      (F i r).owner = r.owner ∧ (F i r).kind = r.kind) (h : AttrWF s) : AttrWF s' := by
  have hname : nameOf s' = nameOf s := by
    apply nameOf_congr; intro x; rw [hg]
    cases hx : s.get x with
    | none => rfl
    | some r => simp [(hF x r).2.2.1]
  constructor
  · intro e re' a he ha
    obtain ⟨re, hre, rfl⟩ := get_map_some hg he
    rw [(hF e re).1] at ha
    obtain ⟨ra, hra, h1, h2, h3⟩ := h.attrLink e re a hre ha
    refine ⟨_, get_map_of hg hra, ?_, ?_, ?_⟩
    · rw [(hF a ra).2.2.2.2]; exact h1
    · rw [(hF a ra).2.1]; exact h2
    · rw [(hF a ra).2.2.2.1, (hF e re).2.2.2.1]; exact h3
  · intro a ra' e ha he
    obtain ⟨ra, hra, rfl⟩ := get_map_some hg ha
    rw [(hF a ra).2.1] at he
    obtain ⟨re, hre, hm⟩ := h.attrBack a ra e hra he
    exact ⟨_, get_map_of hg hre, by rw [(hF e re).1]; exact hm⟩
  · intro e re' he
    obtain ⟨re, hre, rfl⟩ := get_map_some hg he
    rw [(hF e re).1, hname]; exact h.attrSorted e re hre
  · intro e re' he hne
    obtain ⟨re, hre, rfl⟩ := get_map_some hg he
    rw [(hF e re).1] at hne
    rw [(hF e re).2.2.2.2]; exact h.attrsElem e re hre hne

-- ------------------------------------------------------------------ detach, setDataOf, setNameOf
theorem get_detach (s : Store) (c i : NodeId) :
    (detach s c).get i = (s.get i).map (fun r =>
      { r with children := r.children.filter (fun x => x != c)
               parent := if i = c then none else r.parent }) := by
  unfold detach; rw [get_mapNodes]; cases s.get i <;> rfl

theorem wf_detach (s : Store) (h : WF s) (c : NodeId) : WF (detach s c) := by
  obtain ⟨ht, hd, ha⟩ := (wf_parts s).mp h
  have hg := get_detach s c
  refine (wf_parts _).mpr ⟨?_, docWF_frame hg (fun i r => ⟨rfl, rfl⟩) hd,
    attrWF_frame hg (fun i r => ⟨rfl, rfl, rfl, rfl, rfl⟩) ha⟩
  constructor
  · intro p r' x hp hx
    obtain ⟨r, hr, rfl⟩ := get_map_some hg hp
    simp only [List.mem_filter, bne_iff_ne, ne_eq] at hx
    obtain ⟨rc, hrc, hpar⟩ := ht.childParent p r x hr hx.1
    refine ⟨_, get_map_of hg hrc, ?_⟩
    simp [hx.2, hpar]
  · intro x rc' p hx hp
    obtain ⟨rc, hrc, rfl⟩ := get_map_some hg hx
    simp only at hp
    by_cases hxc : x = c
    · simp [hxc] at hp
    · simp [hxc] at hp
      obtain ⟨r, hr, hm⟩ := ht.parentChild x rc p hrc hp
      refine ⟨_, get_map_of hg hr, ?_⟩
      simp [List.mem_filter, hm, hxc]
  · intro p r' hp
    obtain ⟨r, hr, rfl⟩ := get_map_some hg hp
    exact (ht.nodupChildren p r hr).filter _
  · obtain ⟨rank, hrank⟩ := ht.acyclic
    refine ⟨rank, ?_⟩
    intro x rc' p hx hp
    obtain ⟨rc, hrc, rfl⟩ := get_map_some hg hx
    simp only at hp
    by_cases hxc : x = c
    · simp [hxc] at hp
    · simp [hxc] at hp; exact hrank x rc p hrc hp
  · intro x rc' p rp' hx hp hp'
    obtain ⟨rc, hrc, rfl⟩ := get_map_some hg hx
    obtain ⟨rp, hrp, rfl⟩ := get_map_some hg hp'
    simp only at hp ⊢
    by_cases hxc : x = c
    · simp [hxc] at hp
    · simp [hxc] at hp; exact ht.ownerUniform x rc p rp hrc hp hrp
  · intro i r' hi hk
    obtain ⟨r, hr, rfl⟩ := get_map_some hg hi
    simp only at hk ⊢
    split
    · rfl
    · exact ht.rootKinds i r hr hk

theorem get_setDataOf (s : Store) (t : NodeId) (d : List Nat) (i : NodeId) :
    (setDataOf s t d).get i = (s.get i).map (fun r => if i = t then { r with data := d } else r) := by
  unfold setDataOf; rw [get_mapNodes]; cases s.get i <;> rfl

theorem wf_setDataOf (s : Store) (h : WF s) (t : NodeId) (d : List Nat) : WF (setDataOf s t d) := by
  obtain ⟨ht, hd, ha⟩ := (wf_parts s).mp h
  have hg := get_setDataOf s t d
  refine (wf_parts _).mpr ⟨treeWF_frame hg ?_ ht, docWF_frame hg ?_ hd, attrWF_frame hg ?_ ha⟩
  · intro i r; split <;> exact ⟨rfl, rfl, rfl, rfl⟩
  · intro i r; split <;> exact ⟨rfl, rfl⟩
  · intro i r; split <;> exact ⟨rfl, rfl, rfl, rfl, rfl⟩

theorem get_setNameOf (s : Store) (n : NodeId) (nm : List Nat) (i : NodeId) :
    (setNameOf s n nm).get i = (s.get i).map (fun r => if i = n then { r with name := nm } else r) := by
  unfold setNameOf; rw [get_mapNodes]; cases s.get i <;> rfl

/-- renaming a node that is in no attribute map -/
theorem wf_setNameOf (s : Store) (h : WF s) (n : NodeId) (nm : List Nat)
    (hn : ∀ e re, s.get e = some re → n ∉ re.attrs) : WF (setNameOf s n nm) := by
  obtain ⟨ht, hd, ha⟩ := (wf_parts s).mp h
  have hg := get_setNameOf s n nm
  refine (wf_parts _).mpr ⟨treeWF_frame hg ?_ ht, docWF_frame hg ?_ hd, ?_⟩
  · intro i r; split <;> exact ⟨rfl, rfl, rfl, rfl⟩
  · intro i r; split <;> exact ⟨rfl, rfl⟩
  · have hF : ∀ i r, (if i = n then { r with name := nm } else r : NodeRec).attrs = r.attrs ∧
        (if i = n then { r with name := nm } else r : NodeRec).ownerElem = r.ownerElem ∧
        (if i = n then { r with name := nm } else r : NodeRec).owner = r.owner ∧
        (if i = n then { r with name := nm } else r : NodeRec).kind = r.kind := by
      intro i r; split <;> exact ⟨rfl, rfl, rfl, rfl⟩
    constructor
    · intro e re' a he hm
      obtain ⟨re, hre, rfl⟩ := get_map_some hg he
      rw [(hF e re).1] at hm
      obtain ⟨ra, hra, h1, h2, h3⟩ := ha.attrLink e re a hre hm
      refine ⟨_, get_map_of hg hra, ?_, ?_, ?_⟩
      · rw [(hF a ra).2.2.2]; exact h1
      · rw [(hF a ra).2.1]; exact h2
      · rw [(hF a ra).2.2.1, (hF e re).2.2.1]; exact h3
    · intro a ra' e hga he
      obtain ⟨ra, hra, rfl⟩ := get_map_some hg hga
      rw [(hF a ra).2.1] at he
      obtain ⟨re, hre, hm⟩ := ha.attrBack a ra e hra he
      exact ⟨_, get_map_of hg hre, by rw [(hF e re).1]; exact hm⟩
    · intro e re' he
      obtain ⟨re, hre, rfl⟩ := get_map_some hg he
      rw [(hF e re).1]
      have : re.attrs.map (nameOf (setNameOf s n nm)) = re.attrs.map (nameOf s) := by
        apply List.map_congr_left
        intro x hx
        have hxn : x ≠ n := fun hxn => hn e re hre (hxn ▸ hx)
        unfold nameOf; rw [hg]
        cases s.get x with
        | none => rfl
        | some r => simp [hxn]
      rw [this]; exact ha.attrSorted e re hre
    · intro e re' he hne
      obtain ⟨re, hre, rfl⟩ := get_map_some hg he
      rw [(hF e re).1] at hne
      rw [(hF e re).2.2.2]; exact ha.attrsElem e re hre hne

-- ------------------------------------------------------------------ alloc, killNodes
/-- a fresh node that refers to nothing and is referred to by nothing -/
theorem wf_alloc (s : Store) (h : WF s) (r0 : NodeRec)
    (h1 : r0.parent = none) (h2 : r0.children = []) (h3 : r0.attrs = []) (h4 : r0.ownerElem = none)
    (h5 : r0.kind ≠ .document)
    (h6 : ∃ rd, s.get r0.owner = some rd ∧ rd.kind = .document ∧ rd.owner = r0.owner) :
    WF (s.alloc r0).1 := by
  have hg := get_alloc s r0
  have hold : ∀ i r, s.get i = some r → (s.alloc r0).1.get i = some r := by
    intro i r hi
    rw [hg, if_neg (Nat.ne_of_lt (lt_size_of_get s i r hi))]; exact hi
  have hcases : ∀ i r, (s.alloc r0).1.get i = some r → (i = s.size ∧ r = r0) ∨ (i ≠ s.size ∧ s.get i = some r) := by
    intro i r hi
    rw [hg] at hi
    split at hi
    · left; exact ⟨‹_›, by simpa using hi.symm⟩
    · right; exact ⟨‹_›, hi⟩
  constructor
  · intro p r c hp hc
    rcases hcases p r hp with ⟨_, rfl⟩ | ⟨_, hp'⟩
    · rw [h2] at hc; cases hc
    · obtain ⟨rc, hrc, hpar⟩ := h.childParent p r c hp' hc
      exact ⟨rc, hold c rc hrc, hpar⟩
  · intro c rc p hc hp
    rcases hcases c rc hc with ⟨_, rfl⟩ | ⟨_, hc'⟩
    · rw [h1] at hp; cases hp
    · obtain ⟨r, hr, hm⟩ := h.parentChild c rc p hc' hp
      exact ⟨r, hold p r hr, hm⟩
  · intro p r hp
    rcases hcases p r hp with ⟨_, rfl⟩ | ⟨_, hp'⟩
    · rw [h2]; exact List.nodup_nil
    · exact h.nodupChildren p r hp'
  · obtain ⟨rank, hrank⟩ := h.acyclic
    refine ⟨rank, ?_⟩
    intro c rc p hc hp
    rcases hcases c rc hc with ⟨_, rfl⟩ | ⟨_, hc'⟩
    · rw [h1] at hp; cases hp
    · exact hrank c rc p hc' hp
  · intro i r hi
    rcases hcases i r hi with ⟨_, rfl⟩ | ⟨_, hi'⟩
    · obtain ⟨rd, hrd, hk, ho⟩ := h6
      exact ⟨rd, hold _ rd hrd, hk, ho⟩
    · obtain ⟨rd, hrd, hk, ho⟩ := h.ownerDoc i r hi'
      exact ⟨rd, hold _ rd hrd, hk, ho⟩
  · intro i r hi hk
    rcases hcases i r hi with ⟨_, rfl⟩ | ⟨_, hi'⟩
    · exact absurd hk h5
    · exact h.docSelf i r hi' hk
  · intro c rc p rp hc hp hp'
    rcases hcases c rc hc with ⟨_, rfl⟩ | ⟨_, hc'⟩
    · rw [h1] at hp; cases hp
    · obtain ⟨r, hr, _⟩ := h.parentChild c rc p hc' hp
      have e : rp = r := by
        have := hold p r hr
        rw [hp'] at this; exact Option.some.inj this
      rw [e]
      exact h.ownerUniform c rc p r hc' hp hr
  · intro i r hi hk
    rcases hcases i r hi with ⟨_, rfl⟩ | ⟨_, hi'⟩
    · exact h1
    · exact h.rootKinds i r hi' hk
  · intro e re a he ha
    rcases hcases e re he with ⟨_, rfl⟩ | ⟨_, he'⟩
    · rw [h3] at ha; cases ha
    · obtain ⟨ra, hra, x1, x2, x3⟩ := h.attrLink e re a he' ha
      exact ⟨ra, hold a ra hra, x1, x2, x3⟩
  · intro a ra e hga he
    rcases hcases a ra hga with ⟨_, rfl⟩ | ⟨_, ha'⟩
    · rw [h4] at he; cases he
    · obtain ⟨re, hre, hm⟩ := h.attrBack a ra e ha' he
      exact ⟨re, hold e re hre, hm⟩
  · intro e re he
    rcases hcases e re he with ⟨_, rfl⟩ | ⟨_, he'⟩
    · rw [h3]; exact List.Pairwise.nil
    · have : re.attrs.map (nameOf (s.alloc r0).1) = re.attrs.map (nameOf s) := by
        apply List.map_congr_left
        intro x hx
        obtain ⟨ra, hra, _⟩ := h.attrLink e re x he' hx
        unfold nameOf; rw [hold x ra hra, hra]
      rw [this]; exact h.attrSorted e re he'
  · intro e re he hne
    rcases hcases e re he with ⟨_, rfl⟩ | ⟨_, he'⟩
    · exact absurd h3 hne
    · exact h.attrsElem e re he' hne

theorem get_killNodes (s : Store) (dead : List NodeId) (i : NodeId) :
    (killNodes s dead).get i = (s.get i).bind (fun r =>
      if dead.contains i then none else some
      { r with
        children := r.children.filter (fun c => !dead.contains c)
        attrs := r.attrs.filter (fun c => !dead.contains c)
        parent := match r.parent with
          | some p => if dead.contains p then none else some p
          | none => none
        ownerElem := match r.ownerElem with
          | some e => if dead.contains e then none else some e
          | none => none }) := by
  unfold killNodes; rw [get_mapNodes]; rfl

theorem kill_some {s : Store} {dead : List NodeId} {i : NodeId} {r' : NodeRec}
    (h : (killNodes s dead).get i = some r') :
    i ∉ dead ∧ ∃ r, s.get i = some r ∧ r'.kind = r.kind ∧ r'.owner = r.owner ∧ r'.name = r.name ∧
      r'.children = r.children.filter (fun c => !dead.contains c) ∧
      r'.attrs = r.attrs.filter (fun c => !dead.contains c) ∧
      (∀ p, r'.parent = some p ↔ (r.parent = some p ∧ p ∉ dead)) ∧
      (∀ e, r'.ownerElem = some e ↔ (r.ownerElem = some e ∧ e ∉ dead)) := by
  rw [get_killNodes] at h
  cases hr : s.get i with
  | none => rw [hr] at h; cases h
  | some r =>
    rw [hr] at h
    simp only [Option.bind_some] at h
    split at h
    · cases h
    · rename_i hd
      simp only [Option.some.injEq] at h
      subst h
      refine ⟨by simpa using hd, r, rfl, rfl, rfl, rfl, rfl, rfl, ?_, ?_⟩
      · intro p
        cases hp : r.parent with
        | none => simp
        | some q =>
          simp only
          by_cases hq : q ∈ dead
          · simp [hq]; intro h; subst h; exact hq
          · simp [hq]; intro h; subst h; exact hq
      · intro e
        cases hp : r.ownerElem with
        | none => simp
        | some q =>
          simp only
          by_cases hq : q ∈ dead
          · simp [hq]; intro h; subst h; exact hq
          · simp [hq]; intro h; subst h; exact hq

theorem kill_of {s : Store} {dead : List NodeId} {i : NodeId} {r : NodeRec}
    (h : s.get i = some r) (hi : i ∉ dead) : ∃ r', (killNodes s dead).get i = some r' := by
  rw [get_killNodes, h]
  simp [hi]

theorem wf_killNodes (s : Store) (h : WF s) (dead : List NodeId)
    (hdoc : ∀ d r, d ∈ dead → s.get d = some r → r.kind ≠ .document) : WF (killNodes s dead) := by
  constructor
  · intro p r' c hp hc
    obtain ⟨hpd, r, hr, _, _, _, hch, _, _, _⟩ := kill_some hp
    rw [hch] at hc
    have hc' := List.mem_filter.mp hc
    have hcd : c ∉ dead := by simpa using hc'.2
    obtain ⟨rc, hrc, hpar⟩ := h.childParent p r c hr hc'.1
    obtain ⟨rc', hrc'⟩ := kill_of (dead := dead) hrc hcd
    refine ⟨rc', hrc', ?_⟩
    obtain ⟨_, rc2, hrc2, _, _, _, _, _, hpp, _⟩ := kill_some hrc'
    rw [hrc] at hrc2; cases hrc2
    exact (hpp p).mpr ⟨hpar, hpd⟩
  · intro c rc' p hc hp
    obtain ⟨hcd, rc, hrc, _, _, _, _, _, hpp, _⟩ := kill_some hc
    obtain ⟨hpar, hpd⟩ := (hpp p).mp hp
    obtain ⟨r, hr, hm⟩ := h.parentChild c rc p hrc hpar
    obtain ⟨r', hr'⟩ := kill_of (dead := dead) hr hpd
    refine ⟨r', hr', ?_⟩
    obtain ⟨_, r2, hr2, _, _, _, hch, _, _, _⟩ := kill_some hr'
    rw [hr] at hr2; cases hr2
    rw [hch]; simp [List.mem_filter, hm, hcd]
  · intro p r' hp
    obtain ⟨_, r, hr, _, _, _, hch, _, _, _⟩ := kill_some hp
    rw [hch]; exact (h.nodupChildren p r hr).filter _
  · obtain ⟨rank, hrank⟩ := h.acyclic
    refine ⟨rank, ?_⟩
    intro c rc' p hc hp
    obtain ⟨_, rc, hrc, _, _, _, _, _, hpp, _⟩ := kill_some hc
    exact hrank c rc p hrc ((hpp p).mp hp).1
  · intro i r' hi
    obtain ⟨_, r, hr, _, ho, _, _, _, _, _⟩ := kill_some hi
    obtain ⟨rd, hrd, hk, hown⟩ := h.ownerDoc i r hr
    have hnd : r.owner ∉ dead := fun hd => hdoc _ rd hd hrd hk
    obtain ⟨rd', hrd'⟩ := kill_of (dead := dead) hrd hnd
    obtain ⟨_, rd2, hrd2, hk2, ho2, _, _, _, _, _⟩ := kill_some hrd'
    rw [hrd] at hrd2; cases hrd2
    rw [ho]
    exact ⟨rd', hrd', by rw [hk2]; exact hk, by rw [ho2]; exact hown⟩
  · intro i r' hi hk
    obtain ⟨_, r, hr, hk', ho, _, _, _, _, _⟩ := kill_some hi
    rw [ho]; exact h.docSelf i r hr (hk' ▸ hk)
  · intro c rc' p rp' hc hp hp'
    obtain ⟨_, rc, hrc, _, ho, _, _, _, hpp, _⟩ := kill_some hc
    obtain ⟨_, rp, hrp, _, ho2, _, _, _, _, _⟩ := kill_some hp'
    rw [ho, ho2]
    exact h.ownerUniform c rc p rp hrc ((hpp p).mp hp).1 hrp
  · intro i r' hi hk
    obtain ⟨_, r, hr, hk', _, _, _, _, hpp, _⟩ := kill_some hi
    have := h.rootKinds i r hr (hk' ▸ hk)
    cases hp : r'.parent with
    | none => rfl
    | some p => have := ((hpp p).mp hp).1; simp_all
  · intro e re' a he ha
    obtain ⟨hed, re, hre, _, ho, _, _, hat, _, _⟩ := kill_some he
    rw [hat] at ha
    have ha' := List.mem_filter.mp ha
    have had : a ∉ dead := by simpa using ha'.2
    obtain ⟨ra, hra, x1, x2, x3⟩ := h.attrLink e re a hre ha'.1
    obtain ⟨ra', hra'⟩ := kill_of (dead := dead) hra had
    obtain ⟨_, ra2, hra2, hk2, ho2, _, _, _, _, hoe⟩ := kill_some hra'
    rw [hra] at hra2; cases hra2
    exact ⟨ra', hra', by rw [hk2]; exact x1, (hoe e).mpr ⟨x2, hed⟩, by rw [ho2, ho]; exact x3⟩
  · intro a ra' e hga he
    obtain ⟨had, ra, hra, _, _, _, _, _, _, hoe⟩ := kill_some hga
    obtain ⟨hoe', hed⟩ := (hoe e).mp he
    obtain ⟨re, hre, hm⟩ := h.attrBack a ra e hra hoe'
    obtain ⟨re', hre'⟩ := kill_of (dead := dead) hre hed
    obtain ⟨_, re2, hre2, _, _, _, _, hat, _, _⟩ := kill_some hre'
    rw [hre] at hre2; cases hre2
    exact ⟨re', hre', by rw [hat]; simp [List.mem_filter, hm, had]⟩
  · intro e re' he
    obtain ⟨_, re, hre, _, _, _, _, hat, _, _⟩ := kill_some he
    rw [hat]
    have hsub : ((re.attrs.filter (fun c => !dead.contains c)).map (nameOf (killNodes s dead))).Sublist
        (re.attrs.map (nameOf s)) := by
      have : (re.attrs.filter (fun c => !dead.contains c)).map (nameOf (killNodes s dead)) =
          (re.attrs.filter (fun c => !dead.contains c)).map (nameOf s) := by
        apply List.map_congr_left
        intro x hx
        have hx' := List.mem_filter.mp hx
        have hxd : x ∉ dead := by simpa using hx'.2
        obtain ⟨ra, hra, _⟩ := h.attrLink e re x hre hx'.1
        obtain ⟨ra', hra'⟩ := kill_of (dead := dead) hra hxd
        obtain ⟨_, ra2, hra2, _, _, hn, _⟩ := kill_some hra'
        rw [hra] at hra2; cases hra2
        unfold nameOf; rw [hra', hra]; exact hn
      rw [this]
      exact List.Sublist.map _ List.filter_sublist
    exact List.Pairwise.sublist hsub (h.attrSorted e re hre)
  · intro e re' he hne
    obtain ⟨_, re, hre, hk, _, _, _, hat, _, _⟩ := kill_some he
    rw [hk]
    apply h.attrsElem e re hre
    intro hnil; rw [hat, hnil] at hne; exact hne rfl

-- ------------------------------------------------------------------ attribute maps
theorem nameLt_trans : ∀ (a b c : List Nat), nameLt a b = true → nameLt b c = true → nameLt a c = true
  | [], [], _, h, _ => by simp [nameLt] at h
  | [], _ :: _, [], _, h => by simp [nameLt] at h
  | [], _ :: _, _ :: _, _, _ => by simp [nameLt]
  | _ :: _, [], _, h, _ => by simp [nameLt] at h
  | _ :: _, _ :: _, [], _, h => by simp [nameLt] at h
  | x :: xs, y :: ys, z :: zs, h1, h2 => by
    unfold nameLt at h1 h2 ⊢
    split at h1
    · split at h2
      · have : x < z := by omega
        simp [this]
      · split at h2
        · cases h2
        · have : x < z := by omega
          simp [this]
    · split at h1
      · cases h1
      · have hxy : x = y := by omega
        subst hxy
        split at h2
        · rename_i hz; simp [hz]
        · split at h2
          · cases h2
          · rename_i hz1 hz2
            have := nameLt_trans xs ys zs h1 h2
            simpa [hz1, hz2] using this

theorem nameLt_total : ∀ (a b : List Nat), nameLt a b = false → a ≠ b → nameLt b a = true
  | [], [], _, h => absurd rfl h
  | [], _ :: _, h, _ => by simp [nameLt] at h
  | _ :: _, [], _, _ => by simp [nameLt]
  | x :: xs, y :: ys, h1, h2 => by
    unfold nameLt at h1 ⊢
    split at h1
    · cases h1
    · split at h1
      · rename_i hyx; simp [hyx]
      · have : x = y := by omega
        subst this
        have := nameLt_total xs ys h1 (fun h => h2 (by rw [h]))
        simpa using this

theorem mem_insertSorted (s : Store) (a : NodeId) (nm : List Nat) (l : List NodeId) (x : NodeId) :
    x ∈ insertSorted s a nm l ↔ x = a ∨ x ∈ l := by
  induction l with
  | nil => simp [insertSorted]
  | cons y ys ih =>
    unfold insertSorted
    split
    · simp
    · simp [ih]
      constructor
      · rintro (h | h | h) <;> simp [h]
      · rintro (h | h | h) <;> simp [h]

/-- inserting an absent name keeps the name list strictly sorted -/
theorem sorted_insertSorted (s : Store) (f : NodeId → List Nat) (a : NodeId) (nm : List Nat)
    (hfa : f a = nm) :
    ∀ (l : List NodeId), (l.map f).Pairwise (fun x y => nameLt x y = true) →
      (∀ x, x ∈ l → f x ≠ nm) → (∀ x, x ∈ l → nameOf s x = f x) →
      ((insertSorted s a nm l).map f).Pairwise (fun x y => nameLt x y = true) := by
  intro l
  induction l with
  | nil => intro _ _ _; simp [insertSorted]
  | cons y ys ih =>
    intro hs hne hnm
    unfold insertSorted
    rw [List.map_cons, List.pairwise_cons] at hs
    have hy : nameOf s y = f y := hnm y (List.mem_cons_self)
    split
    · rename_i hlt
      rw [hy] at hlt
      simp only [List.map_cons, List.pairwise_cons]
      refine ⟨?_, ?_, hs.2⟩
      · intro z hz
        rcases List.mem_cons.mp hz with rfl | hz
        · rw [hfa]; exact hlt
        · rw [hfa]; exact nameLt_trans _ _ _ hlt (hs.1 z hz)
      · exact hs.1
    · rename_i hlt
      rw [hy] at hlt
      simp only [List.map_cons, List.pairwise_cons]
      refine ⟨?_, ih hs.2 (fun x hx => hne x (List.mem_cons_of_mem _ hx))
        (fun x hx => hnm x (List.mem_cons_of_mem _ hx))⟩
      intro z hz
      rw [List.mem_map] at hz
      obtain ⟨w, hw, rfl⟩ := hz
      rcases (mem_insertSorted s a nm ys w).mp hw with rfl | hw
      · rw [hfa]
        exact nameLt_total _ _ (by simpa using hlt) (fun h => hne y (List.mem_cons_self) h.symm)
      · exact hs.1 _ (List.mem_map.mpr ⟨w, hw, rfl⟩)

theorem get_unlinkAttr (s : Store) (a i : NodeId) :
    (unlinkAttr s a).get i = (s.get i).map (fun r =>
      { r with attrs := r.attrs.filter (fun x => x != a)
               ownerElem := if i = a then none else r.ownerElem }) := by
  unfold unlinkAttr; rw [get_mapNodes]; cases s.get i <;> rfl

theorem wf_unlinkAttr (s : Store) (h : WF s) (a : NodeId) : WF (unlinkAttr s a) := by
  obtain ⟨ht, hd, ha⟩ := (wf_parts s).mp h
  have hg := get_unlinkAttr s a
  refine (wf_parts _).mpr ⟨treeWF_frame hg (fun i r => ⟨rfl, rfl, rfl, rfl⟩) ht,
    docWF_frame hg (fun i r => ⟨rfl, rfl⟩) hd, ?_⟩
  have hname : nameOf (unlinkAttr s a) = nameOf s := by
    apply nameOf_congr; intro x; rw [hg]; cases s.get x <;> rfl
  constructor
  · intro e re' x he hx
    obtain ⟨re, hre, rfl⟩ := get_map_some hg he
    simp only [List.mem_filter, bne_iff_ne, ne_eq] at hx
    obtain ⟨ra, hra, h1, h2, h3⟩ := ha.attrLink e re x hre hx.1
    refine ⟨_, get_map_of hg hra, h1, ?_, h3⟩
    simp [hx.2, h2]
  · intro x ra' e hx he
    obtain ⟨ra, hra, rfl⟩ := get_map_some hg hx
    simp only at he
    by_cases hxa : x = a
    · simp [hxa] at he
    · simp [hxa] at he
      obtain ⟨re, hre, hm⟩ := ha.attrBack x ra e hra he
      refine ⟨_, get_map_of hg hre, ?_⟩
      simp [List.mem_filter, hm, hxa]
  · intro e re' he
    obtain ⟨re, hre, rfl⟩ := get_map_some hg he
    rw [hname]
    exact List.Pairwise.sublist (List.Sublist.map _ List.filter_sublist) (ha.attrSorted e re hre)
  · intro e re' he hne
    obtain ⟨re, hre, rfl⟩ := get_map_some hg he
    apply ha.attrsElem e re hre
    intro hnil; simp only [hnil, List.filter_nil] at hne; exact hne rfl

def linkF (s : Store) (e a : NodeId) (nm : List Nat) (i : NodeId) (r : NodeRec) : NodeRec :=
  if i = e then { r with attrs := insertSorted s a nm r.attrs }
  else if i = a then { r with ownerElem := some e }
  else r

theorem get_linkAttr (s : Store) (e a : NodeId) (nm : List Nat) (i : NodeId) :
    (linkAttr s e a nm).get i = (s.get i).map (linkF s e a nm i) := by
  unfold linkAttr; rw [get_mapNodes]; cases s.get i <;> rfl

theorem linkF_fields (s : Store) (e a : NodeId) (nm : List Nat) (i : NodeId) (r : NodeRec) :
    (linkF s e a nm i r).parent = r.parent ∧ (linkF s e a nm i r).children = r.children ∧
    (linkF s e a nm i r).owner = r.owner ∧ (linkF s e a nm i r).kind = r.kind ∧
    (linkF s e a nm i r).name = r.name := by
  unfold linkF; split
  · exact ⟨rfl, rfl, rfl, rfl, rfl⟩
  · split <;> exact ⟨rfl, rfl, rfl, rfl, rfl⟩

theorem linkF_attrs_e (s : Store) (e a : NodeId) (nm : List Nat) (r : NodeRec) :
    (linkF s e a nm e r).attrs = insertSorted s a nm r.attrs := by
  unfold linkF; rw [if_pos rfl]

theorem linkF_attrs_ne (s : Store) (e a : NodeId) (nm : List Nat) (i : NodeId) (r : NodeRec) (h : i ≠ e) :
    (linkF s e a nm i r).attrs = r.attrs := by
  unfold linkF; rw [if_neg h]; split <;> rfl

theorem linkF_oe_a (s : Store) (e a : NodeId) (nm : List Nat) (r : NodeRec) (h : a ≠ e) :
    (linkF s e a nm a r).ownerElem = some e := by
  unfold linkF; rw [if_neg h, if_pos rfl]

theorem linkF_oe_ne (s : Store) (e a : NodeId) (nm : List Nat) (i : NodeId) (r : NodeRec) (h : i ≠ a) :
    (linkF s e a nm i r).ownerElem = r.ownerElem := by
  unfold linkF
  by_cases h1 : i = e
  · rw [if_pos h1]
  · rw [if_neg h1, if_neg h]

theorem wf_linkAttr (s : Store) (h : WF s) (e a : NodeId) (nm : List Nat) (re ra : NodeRec)
    (he : s.get e = some re) (hra : s.get a = some ra) (hea : e ≠ a) (hke : re.kind = .element)
    (hk : ra.kind = .attr) (hoe : ra.ownerElem = none) (hown : ra.owner = re.owner) (hnm : ra.name = nm)
    (hfresh : ∀ x, x ∈ re.attrs → nameOf s x ≠ nm) : WF (linkAttr s e a nm) := by
  obtain ⟨ht, hd, ha⟩ := (wf_parts s).mp h
  have hg := get_linkAttr s e a nm
  have hF := linkF_fields s e a nm
  refine (wf_parts _).mpr ⟨treeWF_frame hg (fun i r => ⟨(hF i r).1, (hF i r).2.1, (hF i r).2.2.1, (hF i r).2.2.2.1⟩) ht,
    docWF_frame hg (fun i r => ⟨(hF i r).2.2.1, (hF i r).2.2.2.1⟩) hd, ?_⟩
  have hname : nameOf (linkAttr s e a nm) = nameOf s := by
    apply nameOf_congr; intro x; rw [hg]
    cases s.get x with
    | none => rfl
    | some r => simp [(hF x r).2.2.2.2]
  -- `a` is in no attribute list
  have hnotin : ∀ e' re', s.get e' = some re' → a ∉ re'.attrs := by
    intro e' re' he' hm
    obtain ⟨ra2, hra2, _, h2, _⟩ := ha.attrLink e' re' a he' hm
    rw [hra] at hra2; cases hra2
    rw [hoe] at h2; cases h2
  constructor
  · intro e' re1 x he' hx
    obtain ⟨re0, hre0, rfl⟩ := get_map_some hg he'
    by_cases hee : e' = e
    · subst hee
      rw [he] at hre0; cases hre0
      rw [linkF_attrs_e] at hx
      rcases (mem_insertSorted s a nm re.attrs x).mp hx with rfl | hx
      · refine ⟨_, get_map_of hg hra, ?_, ?_, ?_⟩
        · rw [(hF x ra).2.2.2.1]; exact hk
        · exact linkF_oe_a s e' x nm ra (Ne.symm hea)
        · rw [(hF x ra).2.2.1, (hF e' re).2.2.1]; exact hown
      · obtain ⟨rx, hrx, h1, h2, h3⟩ := ha.attrLink e' re x he hx
        have hxa : x ≠ a := fun hxa => hnotin e' re he (hxa ▸ hx)
        refine ⟨_, get_map_of hg hrx, ?_, ?_, ?_⟩
        · rw [(hF x rx).2.2.2.1]; exact h1
        · rw [linkF_oe_ne s e' a nm x rx hxa]; exact h2
        · rw [(hF x rx).2.2.1, (hF e' re).2.2.1]; exact h3
    · rw [linkF_attrs_ne s e a nm e' re0 hee] at hx
      obtain ⟨rx, hrx, h1, h2, h3⟩ := ha.attrLink e' re0 x hre0 hx
      have hxa : x ≠ a := fun hxa => hnotin e' re0 hre0 (hxa ▸ hx)
      refine ⟨_, get_map_of hg hrx, ?_, ?_, ?_⟩
      · rw [(hF x rx).2.2.2.1]; exact h1
      · rw [linkF_oe_ne s e a nm x rx hxa]; exact h2
      · rw [(hF x rx).2.2.1, (hF e' re0).2.2.1]; exact h3
  · intro x rx' e' hx hoe'
    obtain ⟨rx, hrx, rfl⟩ := get_map_some hg hx
    by_cases hxa : x = a
    · subst hxa
      rw [hra] at hrx; cases hrx
      rw [linkF_oe_a s e x nm ra (Ne.symm hea)] at hoe'
      cases hoe'
      refine ⟨_, get_map_of hg he, ?_⟩
      rw [linkF_attrs_e]; simp [mem_insertSorted]
    · rw [linkF_oe_ne s e a nm x rx hxa] at hoe'
      obtain ⟨re2, hre2, hm⟩ := ha.attrBack x rx e' hrx hoe'
      refine ⟨_, get_map_of hg hre2, ?_⟩
      by_cases hee : e' = e
      · subst hee
        rw [he] at hre2; cases hre2
        rw [linkF_attrs_e]; simp [mem_insertSorted, hm]
      · rw [linkF_attrs_ne s e a nm e' re2 hee]; exact hm
  · intro e' re1 he'
    obtain ⟨re0, hre0, rfl⟩ := get_map_some hg he'
    rw [hname]
    by_cases hee : e' = e
    · subst hee
      rw [he] at hre0; cases hre0
      rw [linkF_attrs_e]
      exact sorted_insertSorted s (nameOf s) a nm (by unfold nameOf; rw [hra]; exact hnm) re.attrs
        (ha.attrSorted e' re he) hfresh (fun _ _ => rfl)
    · rw [linkF_attrs_ne s e a nm e' re0 hee]; exact ha.attrSorted e' re0 hre0
  · intro e' re1 he' hne
    obtain ⟨re0, hre0, rfl⟩ := get_map_some hg he'
    rw [(hF e' re0).2.2.2.1]
    by_cases hee : e' = e
    · subst hee; rw [he] at hre0; cases hre0; exact hke
    · rw [linkF_attrs_ne s e a nm e' re0 hee] at hne
      exact ha.attrsElem e' re0 hre0 hne

-- ------------------------------------------------------------------ ancestor check, hierarchy table
theorem ancFuel_sound (s : Store) (n : NodeId) : ∀ (fuel : Nat) (x : NodeId),
    ancOrSelfFuel s n fuel x = false → ¬ AncOrSelf s n x := by
  intro fuel
  induction fuel with
  | zero => intro x h; simp [ancOrSelfFuel] at h
  | succ k ih =>
    intro x h ha
    unfold ancOrSelfFuel at h
    split at h
    · cases h
    · rename_i hxn
      cases ha with
      | refl => exact hxn rfl
      | step hq ha' =>
        rw [hq] at h
        exact ih _ h ha'

theorem ancFuel_complete (s : Store) (n : NodeId) : ∀ (fuel : Nat) (x : NodeId),
    AncOrSelf s n x → ancOrSelfFuel s n fuel x = true := by
  intro fuel
  induction fuel with
  | zero => intro x _; rfl
  | succ k ih =>
    intro x ha
    unfold ancOrSelfFuel
    split
    · rfl
    · rename_i hxn
      cases ha with
      | refl => exact absurd rfl hxn
      | step hq ha' => rw [hq]; exact ih _ ha'

theorem isAncOrSelf_sound (s : Store) (n x : NodeId) (h : isAncOrSelf s n x = false) : ¬ AncOrSelf s n x :=
  ancFuel_sound s n _ x h

theorem isAncOrSelf_complete (s : Store) (n x : NodeId) (h : AncOrSelf s n x) : isAncOrSelf s n x = true :=
  ancFuel_complete s n _ x h

theorem length_filter_lt {α : Type} (l : List α) (P Q : α → Bool) (himp : ∀ y, Q y = true → P y = true)
    (hex : ∃ y, y ∈ l ∧ P y = true ∧ Q y = false) : (l.filter Q).length < (l.filter P).length := by
  induction l with
  | nil => obtain ⟨y, hy, _⟩ := hex; cases hy
  | cons z zs ih =>
    obtain ⟨y, hy, hp, hq⟩ := hex
    have hle : (zs.filter Q).length ≤ (zs.filter P).length := by
      clear ih hy
      induction zs with
      | nil => simp
      | cons w ws ihw =>
        simp only [List.filter_cons]
        by_cases hqw : Q w = true
        · simp [hqw, himp w hqw]; exact ihw
        · simp [hqw]
          split
          · simp; omega
          · exact ihw
    simp only [List.filter_cons]
    rcases List.mem_cons.mp hy with rfl | hy'
    · simp [hp, hq]; omega
    · have := ih ⟨y, hy', hp, hq⟩
      by_cases hqz : Q z = true
      · simp [hqz, himp z hqz]; exact this
      · simp [hqz]
        split
        · simp; omega
        · exact this

/-- In a well-formed store the bounded walk never runs out of fuel: the check is exact. -/
theorem fuel_suffices (s : Store) (h : WF s) (n x : NodeId) (rx : NodeRec) (hx : s.get x = some rx)
    (hna : ¬ AncOrSelf s n x) : isAncOrSelf s n x = false := by
  obtain ⟨rank, hrank⟩ := h.acyclic
  let above : NodeId → List NodeId := fun y => (List.range s.size).filter (fun z => decide (rank y < rank z))
  have key : ∀ (fuel : Nat) (y : NodeId) (ry : NodeRec), s.get y = some ry → (above y).length < fuel →
      ¬ AncOrSelf s n y → ancOrSelfFuel s n fuel y = false := by
    intro fuel
    induction fuel with
    | zero => intro y ry _ hl _; omega
    | succ k ih =>
      intro y ry hy hl hnot
      unfold ancOrSelfFuel
      split
      · rename_i hyn; subst hyn; exact absurd AncOrSelf.refl hnot
      · cases hq : parentOf s y with
        | none => rfl
        | some q =>
          simp only
          have hpar : ry.parent = some q := by
            simp [parentOf, hy] at hq; exact hq
          obtain ⟨rq, hrq, _⟩ := h.parentChild y ry q hy hpar
          have hlt := hrank y ry q hy hpar
          apply ih q rq hrq
          · have : (above q).length < (above y).length := by
              apply length_filter_lt
              · intro z hz; simp at hz ⊢; omega
              · refine ⟨q, ?_, ?_, ?_⟩
                · simp [List.mem_range]; exact lt_size_of_get s q rq hrq
                · simp; exact hlt
                · simp
            omega
          · intro ha; exact hnot (.step hq ha)
  unfold isAncOrSelf
  apply key _ x rx hx _ hna
  have : (above x).length ≤ s.size := by
    have := List.length_filter_le (fun z => decide (rank x < rank z)) (List.range s.size)
    simpa using this
  omega

theorem kidOK_attr (k : Kind) : kidOKTable k .attr = false := by cases k <;> decide
theorem kidOK_document (k : Kind) : kidOKTable k .document = false := by cases k <;> decide

theorem isKidOK_kind (rp rc : NodeRec) (h : isKidOK rp rc = true) : rc.kind ≠ .document ∧ rc.kind ≠ .attr := by
  unfold isKidOK at h
  constructor
  · intro hk
    rw [hk, kidOK_document] at h
    simp at h
  · intro hk
    rw [hk, kidOK_attr] at h
    simp at h

-- ------------------------------------------------------------------ tree surgery operations
theorem wf_createNode (s : Store) (h : WF s) (d : NodeId) (chk : Option (List Nat)) (mk : NodeRec)
    (h1 : mk.parent = none) (h2 : mk.children = []) (h3 : mk.attrs = []) (h4 : mk.ownerElem = none)
    (h5 : mk.kind ≠ .document) (h6 : mk.owner = d) : WF (createNode s d chk mk).1 := by
  unfold createNode
  cases hd : s.get d with
  | none => exact h
  | some rd =>
    simp only
    split
    · exact h
    · rename_i hk
      have hk' : rd.kind = .document := by simpa using hk
      have hw : WF (s.alloc mk).1 :=
        wf_alloc s h mk h1 h2 h3 h4 h5 ⟨rd, by rw [h6]; exact hd, hk', by rw [h6]; exact h.docSelf d rd hd hk'⟩
      cases chk with
      | none => exact hw
      | some nm =>
        simp only
        split
        · exact hw
        · exact h

theorem anc_has_child (s : Store) (a x : NodeId) (h : AncOrSelf s a x) :
    a = x ∨ ∃ c, parentOf s c = some a := by
  induction h with
  | refl => exact Or.inl rfl
  | step hq _ ih =>
    rcases ih with rfl | hc
    · exact Or.inr ⟨_, hq⟩
    · exact Or.inr hc

theorem not_anc_of_childless (s : Store) (h : WF s) (t p : NodeId) (rt : NodeRec) (ht : s.get t = some rt)
    (hc : rt.children = []) (hne : t ≠ p) : ¬ AncOrSelf s t p := by
  intro ha
  rcases anc_has_child s t p ha with rfl | ⟨c, hcp⟩
  · exact hne rfl
  · unfold parentOf at hcp
    cases hgc : s.get c with
    | none => rw [hgc] at hcp; cases hcp
    | some rc =>
      rw [hgc] at hcp
      obtain ⟨r, hr, hm⟩ := h.parentChild c rc t hgc hcp
      rw [ht] at hr; cases hr
      rw [hc] at hm; cases hm

/-- what the checks guarantee when they let the operation through -/
theorem insertPlan_ok (s : Store) (p n : NodeId) (rp rn : NodeRec) (ref : Option NodeId) (a b : Bool)
    (ms : List NodeId) (h : insertPlan s p n rp rn ref a b = .ok ms) :
    isLeaf rp.kind = false ∧ rp.readOnly = false ∧ ownerDocOf rn = some rp.owner ∧ isAncOrSelf s n p = false ∧
    refNotChild s p ref = false ∧
    ((rn.kind = .fragment ∧ fragKidsBad s rp rn.children = false ∧ ms = rn.children) ∨
     (rn.kind ≠ .fragment ∧ isKidOK rp rn = true ∧ ms = [n])) := by
  unfold insertPlan at h
  split at h; · cases h
  split at h; · cases h
  rename_i hleaf
  split at h; · cases h
  split at h; · cases h
  rename_i hro
  split at h; · cases h
  rename_i hown
  split at h; · cases h
  rename_i hanc
  split at h; · cases h
  rename_i href
  split at h; · cases h
  refine ⟨by simpa using hleaf, by simpa using hro, by simpa using hown, by simpa using hanc,
    by simpa using href, ?_⟩
  split at h
  · rename_i hfrag
    split at h
    · cases h
    · rename_i hbad
      exact Or.inl ⟨hfrag, by simpa using hbad, by cases h; rfl⟩
  · rename_i hfrag
    split at h
    · cases h
    · rename_i hkid
      exact Or.inr ⟨hfrag, by simpa using hkid, by cases h; rfl⟩

theorem wf_insertBeforeCore (s : Store) (h : WF s) (p n : NodeId) (ref : Option NodeId) (a b : Bool) :
    WF (insertBeforeCore s p n ref a b).1 := by
  unfold insertBeforeCore
  split
  · rename_i rp rn hp hn
    split
    · exact h
    · rename_i ms hplan
      obtain ⟨_, _, hown, hanc, _, hcase⟩ := insertPlan_ok s p n rp rn ref a b ms hplan
      have hna := isAncOrSelf_sound s n p hanc
      have hown' : rn.kind ≠ .document ∧ rn.owner = rp.owner := by
        unfold ownerDocOf at hown
        split at hown
        · cases hown
        · exact ⟨‹_›, by simpa using hown⟩
      rcases hcase with ⟨hfrag, _, rfl⟩ | ⟨_, hkid, rfl⟩
      · apply wf_moveNodes s h rn.children p ref rp hp _ (h.nodupChildren n rn hn)
        intro m hm
        obtain ⟨rm, hrm, hpar⟩ := h.childParent n rn m hn hm
        refine ⟨rm, hrm, ?_, ?_, ?_, ?_⟩
        · rw [h.ownerUniform m rm n rn hrm hpar hn]; exact hown'.2
        · intro hk; have := h.rootKinds m rm hrm (Or.inl hk); rw [this] at hpar; cases hpar
        · intro hk; have := h.rootKinds m rm hrm (Or.inr hk); rw [this] at hpar; cases hpar
        · intro ha; exact hna (anc_up s m p n ha (parentOf_eq s m rm n hrm hpar))
      · apply wf_moveNodes s h [n] p ref rp hp _ (List.pairwise_singleton _ _)
        intro m hm
        rw [List.mem_singleton] at hm; subst hm
        exact ⟨rn, hn, hown'.2, hown'.1, (isKidOK_kind rp rn hkid).2, hna⟩
  · exact h

theorem wf_removeChildCore (s : Store) (h : WF s) (p c : NodeId) : WF (removeChildCore s p c).1 := by
  unfold removeChildCore
  split
  · split; · exact h
    split; · exact h
    split; · exact h
    exact wf_detach s h c
  · exact h

theorem wf_replaceChildCore (s : Store) (h : WF s) (p n old : NodeId) : WF (replaceChildCore s p n old).1 := by
  unfold replaceChildCore
  split
  · rename_i rp _ ro _ _ _
    split; · exact h
    simp only
    split
    · rename_i s1 v heq
      have := wf_insertBeforeCore s h p n (some old) (rp.kind == Kind.document && ro.kind == Kind.element) (rp.kind == Kind.document && ro.kind == Kind.doctype)
      rw [heq] at this
      exact wf_detach s1 this old
    · exact h
  · exact h

-- ------------------------------------------------------------------ attribute operations
theorem nameLt_irrefl : ∀ (a : List Nat), nameLt a a = false
  | [] => rfl
  | x :: xs => by unfold nameLt; simp [nameLt_irrefl xs]

/-- names in a strictly sorted attribute list are pairwise different -/
theorem sorted_inj (f : NodeId → List Nat) : ∀ (l : List NodeId),
    (l.map f).Pairwise (fun x y => nameLt x y = true) → ∀ x y, x ∈ l → y ∈ l → f x = f y → x = y := by
  intro l
  induction l with
  | nil => intro _ x y hx; cases hx
  | cons z zs ih =>
    intro hs x y hx hy hf
    rw [List.map_cons, List.pairwise_cons] at hs
    rcases List.mem_cons.mp hx with rfl | hx' <;> rcases List.mem_cons.mp hy with rfl | hy'
    · rfl
    · have := hs.1 (f y) (List.mem_map.mpr ⟨y, hy', rfl⟩)
      rw [hf, nameLt_irrefl] at this; cases this
    · have := hs.1 (f x) (List.mem_map.mpr ⟨x, hx', rfl⟩)
      rw [← hf, nameLt_irrefl] at this; cases this
    · exact ih hs.2 x y hx' hy' hf

theorem findAttr_some (s : Store) (l : List NodeId) (nm : List Nat) (a : NodeId)
    (h : findAttr s l nm = some a) : a ∈ l ∧ nameOf s a = nm := by
  unfold findAttr at h
  have h1 := List.mem_of_find?_eq_some h
  have h2 := List.find?_some h
  exact ⟨h1, by simpa using h2⟩

theorem findAttr_none (s : Store) (l : List NodeId) (nm : List Nat)
    (h : findAttr s l nm = none) : ∀ x, x ∈ l → nameOf s x ≠ nm := by
  unfold findAttr at h
  intro x hx
  have := List.find?_eq_none.mp h x hx
  simpa using this

/-- DOMAttrImpl::setValue -/
theorem wf_setValueCore (s : Store) (h : WF s) (a : NodeId) (ra : NodeRec) (ha : s.get a = some ra)
    (hk : ra.kind = .attr) (val : List Nat) : WF (setValueCore s a ra val) := by
  unfold setValueCore
  simp only
  -- s1: fresh text node
  have hw1 : WF (s.alloc { kind := .text, data := val, owner := ra.owner }).1 :=
    wf_alloc s h _ rfl rfl rfl rfl (by intro hh; cases hh) (h.ownerDoc a ra ha)
  generalize hs1 : (s.alloc { kind := .text, data := val, owner := ra.owner }).1 = s1 at hw1
  have hg1 : ∀ i, s1.get i = if i = s.size then some { kind := .text, data := val, owner := ra.owner } else s.get i := by
    intro i; rw [← hs1]; exact get_alloc s _ i
  have halt : a < s.size := lt_size_of_get s a ra ha
  have ha1 : s1.get a = some ra := by rw [hg1, if_neg (Nat.ne_of_lt halt)]; exact ha
  have hpa : ra.parent = none := h.rootKinds a ra ha (Or.inr hk)
  -- s2: old children released
  have hkidlive : ∀ c, c ∈ ra.children → ∃ rc, s.get c = some rc ∧ rc.parent = some a :=
    fun c hc => h.childParent a ra c ha hc
  have hw2 : WF (killNodes s1 ra.children) := by
    apply wf_killNodes s1 hw1
    intro d r hd hr hkd
    obtain ⟨rc, hrc, hpar⟩ := hkidlive d hd
    have hdlt := lt_size_of_get s d rc hrc
    rw [hg1, if_neg (Nat.ne_of_lt hdlt), hrc] at hr
    have e := Option.some.inj hr
    rw [← e] at hkd
    have := h.rootKinds d rc hrc (Or.inl hkd)
    rw [this] at hpar; cases hpar
  generalize hs2 : killNodes s1 ra.children = s2 at hw2
  have hand : a ∉ ra.children := by
    intro hm
    obtain ⟨rc, hrc, hpar⟩ := hkidlive a hm
    rw [ha] at hrc; cases hrc
    rw [hpa] at hpar; cases hpar
  have htnd : s.size ∉ ra.children := by
    intro hm
    obtain ⟨rc, hrc, _⟩ := hkidlive _ hm
    exact absurd (lt_size_of_get s _ rc hrc) (Nat.lt_irrefl _)
  obtain ⟨ra2, hra2⟩ := kill_of (dead := ra.children) ha1 hand
  rw [hs2] at hra2
  obtain ⟨_, ra', hra', _, hown2, _, _, _, hpar2, _⟩ := kill_some (hs2 ▸ hra2 : (killNodes s1 ra.children).get a = some ra2)
  rw [ha1] at hra'; cases hra'
  have ht1 : s1.get s.size = some { kind := .text, data := val, owner := ra.owner } := by
    rw [hg1, if_pos rfl]
  obtain ⟨rt2, hrt2⟩ := kill_of (dead := ra.children) ht1 htnd
  rw [hs2] at hrt2
  obtain ⟨_, rt', hrt', hkt, hownt, _, hcht, _, _, _⟩ := kill_some (hs2 ▸ hrt2 : (killNodes s1 ra.children).get s.size = some rt2)
  rw [ht1] at hrt'; cases hrt'
  apply wf_moveNodes s2 hw2 [s.size] a none ra2 hra2 _ (List.pairwise_singleton _ _)
  intro m hm
  rw [List.mem_singleton] at hm; subst hm
  refine ⟨rt2, hrt2, ?_, ?_, ?_, ?_⟩
  · rw [hownt, hown2]
  · rw [hkt]; intro hh; cases hh
  · rw [hkt]; intro hh; cases hh
  · apply not_anc_of_childless s2 hw2 _ a rt2 hrt2
    · rw [hcht]; rfl
    · exact Nat.ne_of_gt halt

theorem wf_setValueOp (s : Store) (h : WF s) (a : NodeId) (val : List Nat) : WF (setValueOp s a val).1 := by
  unfold setValueOp
  split
  · exact h
  · rename_i ra ha
    split; · exact h
    rename_i hk
    split; · exact h
    exact wf_setValueCore s h a ra ha (by simpa using hk) val

theorem wf_setAttributeCore (s : Store) (h : WF s) (e : NodeId) (nm val : List Nat) :
    WF (setAttributeCore s e nm val).1 := by
  unfold setAttributeCore
  split
  · exact h
  · rename_i re he
    split; · exact h
    rename_i hke0
    have hke : re.kind = .element := by simpa using hke0
    split; · exact h
    split
    · rename_i a hfind
      split
      · rename_i ra hra
        obtain ⟨hmem, _⟩ := findAttr_some s re.attrs nm a hfind
        obtain ⟨ra2, hra2, hk, _⟩ := h.attrLink e re a he hmem
        rw [hra] at hra2; cases hra2
        exact wf_setValueCore s h a ra hra hk val
      · exact h
    · rename_i hfind
      split; · exact h
      simp only
      -- fresh attribute, linked, then valued
      have hfresh := findAttr_none s re.attrs nm hfind
      have hw1 : WF (s.alloc { kind := .attr, name := nm, owner := re.owner }).1 :=
        wf_alloc s h _ rfl rfl rfl rfl (by intro hh; cases hh) (h.ownerDoc e re he)
      generalize hs1 : (s.alloc { kind := .attr, name := nm, owner := re.owner }).1 = s1 at hw1
      have hg1 : ∀ i, s1.get i = if i = s.size then some { kind := .attr, name := nm, owner := re.owner } else s.get i := by
        intro i; rw [← hs1]; exact get_alloc s _ i
      have helt : e < s.size := lt_size_of_get s e re he
      have he1 : s1.get e = some re := by rw [hg1, if_neg (Nat.ne_of_lt helt)]; exact he
      have ha1 : s1.get s.size = some { kind := .attr, name := nm, owner := re.owner } := by rw [hg1, if_pos rfl]
      have hw2 : WF (linkAttr s1 e s.size nm) := by
        apply wf_linkAttr s1 hw1 e s.size nm re _ he1 ha1 (Nat.ne_of_lt helt) hke rfl rfl rfl rfl
        intro x hx
        obtain ⟨rx, hrx, _⟩ := h.attrLink e re x he hx
        have : nameOf s1 x = nameOf s x := by
          unfold nameOf; rw [hg1, if_neg (Nat.ne_of_lt (lt_size_of_get s x rx hrx))]
        rw [this]; exact hfresh x hx
      have ha2 : (linkAttr s1 e s.size nm).get s.size = some (linkF s1 e s.size nm s.size { kind := .attr, name := nm, owner := re.owner }) := by
        rw [get_linkAttr, ha1]; rfl
      have hsz : s1.size = s.size + 1 := by rw [← hs1]; exact size_alloc s _
      -- the record passed to setValueCore is the fresh attribute's record as far as `children`/`owner` go
      have := wf_setValueCore (linkAttr s1 e s.size nm) hw2 s.size _ ha2 (by rw [(linkF_fields ..).2.2.2.1]) val
      unfold setValueCore at this ⊢
      simp only at this ⊢
      rw [(linkF_fields s1 e s.size nm s.size _).2.2.1, (linkF_fields s1 e s.size nm s.size _).2.1] at this
      exact this

-- ------------------------------------------------------------------ remaining core operations
theorem wf_removeAttributeCore (s : Store) (h : WF s) (e : NodeId) (nm : List Nat) :
    WF (removeAttributeCore s e nm).1 := by
  unfold removeAttributeCore
  split
  · exact h
  · rename_i re he
    split; · exact h
    split; · exact h
    split
    · exact h
    · rename_i a hfind
      simp only
      obtain ⟨hmem, _⟩ := findAttr_some s re.attrs nm a hfind
      obtain ⟨ra, hra, hk, _⟩ := h.attrLink e re a he hmem
      have hw1 := wf_unlinkAttr s h a
      apply wf_killNodes _ hw1
      intro d r hd hr hkd
      obtain ⟨r0, hr0, rfl⟩ := get_map_some (get_unlinkAttr s a) hr
      simp only at hkd
      rw [hra] at hd
      rcases List.mem_cons.mp hd with rfl | hd
      · rw [hra] at hr0; cases hr0; rw [hk] at hkd; cases hkd
      · obtain ⟨rc, hrc, hpar⟩ := h.childParent a ra d hra hd
        rw [hr0] at hrc; cases hrc
        have := h.rootKinds d r0 hr0 (Or.inl hkd)
        rw [this] at hpar; cases hpar

theorem wf_removeAttributeNodeCore (s : Store) (h : WF s) (e a : NodeId) :
    WF (removeAttributeNodeCore s e a).1 := by
  unfold removeAttributeNodeCore
  split
  · split; · exact h
    split; · exact h
    split; · exact h
    split
    · exact wf_unlinkAttr s h a
    · exact h
  · exact h

theorem wf_setAttributeNodeCore (s : Store) (h : WF s) (e a : NodeId) :
    WF (setAttributeNodeCore s e a).1 := by
  unfold setAttributeNodeCore
  split
  · rename_i re ra he hra
    split; · exact h
    split; · exact h
    rename_i hke hka
    split; · exact h
    split; · exact h
    rename_i hown
    have hka' : ra.kind = .attr := by simpa using hka
    have hke' : re.kind = .element := by simpa using hke
    have hown' : ra.owner = re.owner := by simpa using hown
    have hea : e ≠ a := by
      intro hea; subst hea; rw [he] at hra; cases hra; rw [hke'] at hka'; cases hka'
    split
    · split <;> exact h
    · rename_i hoe
      split
      · rename_i prev hfind
        simp only
        obtain ⟨hmem, hpn⟩ := findAttr_some s re.attrs ra.name prev hfind
        have hw1 := wf_unlinkAttr s h prev
        have hg := get_unlinkAttr s prev
        have hpa : prev ≠ a := by
          intro hpa; subst hpa
          obtain ⟨ra2, hra2, _, h2, _⟩ := h.attrLink e re prev he hmem
          rw [hra] at hra2; cases hra2
          rw [hoe] at h2; cases h2
        have hname : nameOf (unlinkAttr s prev) = nameOf s := by
          apply nameOf_congr; intro x; rw [hg]; cases s.get x <;> rfl
        apply wf_linkAttr _ hw1 e a ra.name _ _ (get_map_of hg he) (get_map_of hg hra) hea hke' hka'
          (by simp [Ne.symm hpa, hoe]) hown' rfl
        intro x hx
        simp only [List.mem_filter, bne_iff_ne, ne_eq] at hx
        rw [hname]
        intro hxn
        exact hx.2 (sorted_inj (nameOf s) re.attrs (h.attrSorted e re he) x prev hx.1 hmem (by rw [hxn, hpn]))
      · rename_i hfind
        exact wf_linkAttr s h e a ra.name re ra he hra hea hke' hka' hoe hown' rfl (findAttr_none s re.attrs ra.name hfind)
  · exact h

theorem wf_charDataOp (s : Store) (h : WF s) (t : NodeId) (op : CDOp) : WF (charDataOp s t op).1 := by
  unfold charDataOp
  split
  · exact h
  · split; · exact h
    split; · exact h
    split
    · exact h
    · exact h
    · exact wf_setDataOf s h t _

theorem wf_splitTextCore (s : Store) (h : WF s) (t off : Nat) : WF (splitTextCore s t off).1 := by
  unfold splitTextCore
  split
  · exact h
  · rename_i rt ht
    split; · exact h
    rename_i hkind
    split; · exact h
    split; · exact h
    simp only
    split; · exact h
    have hkt : rt.kind ≠ .document := by
      intro hk; rw [hk] at hkind; simp at hkind
    have hkt2 : rt.kind ≠ .attr := by
      intro hk; rw [hk] at hkind; simp at hkind
    have hw1 : WF (s.alloc { kind := rt.kind, data := rt.data.drop off, owner := rt.owner }).1 :=
      wf_alloc s h _ rfl rfl rfl rfl hkt (h.ownerDoc t rt ht)
    generalize hs1 : (s.alloc { kind := rt.kind, data := rt.data.drop off, owner := rt.owner }).1 = s1 at hw1
    have hg1 : ∀ i, s1.get i = if i = s.size then some { kind := rt.kind, data := rt.data.drop off, owner := rt.owner } else s.get i := by
      intro i; rw [← hs1]; exact get_alloc s _ i
    have hw2 := wf_setDataOf s1 hw1 t (rt.data.take off)
    have hg2 := get_setDataOf s1 t (rt.data.take off)
    split
    · exact hw2
    · rename_i p hpar
      simp only
      obtain ⟨rp, hrp, _⟩ := h.parentChild t rt p ht hpar
      have hplt := lt_size_of_get s p rp hrp
      have hp1 : s1.get p = some rp := by rw [hg1, if_neg (Nat.ne_of_lt hplt)]; exact hrp
      have hk1 : s1.get s.size = some { kind := rt.kind, data := rt.data.drop off, owner := rt.owner } := by
        rw [hg1, if_pos rfl]
      have hk2 := get_map_of hg2 hk1
      have hp2 := get_map_of hg2 hp1
      apply wf_moveNodes _ hw2 [s.size] p _ _ hp2 _ (List.pairwise_singleton _ _)
      intro m hm
      rw [List.mem_singleton] at hm; subst hm
      refine ⟨_, hk2, ?_, ?_, ?_, ?_⟩
      · have := h.ownerUniform t rt p rp ht hpar hrp
        split <;> split <;> simp_all
      · split <;> exact hkt
      · split <;> exact hkt2
      · apply not_anc_of_childless _ hw2 _ p _ hk2
        · split <;> rfl
        · exact Nat.ne_of_gt hplt

theorem wf_adoptNodeCore (s : Store) (h : WF s) (d n : NodeId) : WF (adoptNodeCore s d n).1 := by
  unfold adoptNodeCore
  split
  · split; · exact h
    split; · exact h
    split; · exact h
    split
    · split
      · rename_i e _
        split
        · rename_i s1 v heq
          have := wf_removeAttributeNodeCore s h e n
          rw [heq] at this; exact this
        · exact h
      · exact h
    · split
      · rename_i p _
        split
        · rename_i s1 v heq
          have := wf_removeChildCore s h p n
          rw [heq] at this; exact this
        · exact h
      · exact h
  · exact h

theorem wf_renameNodeCore (s : Store) (h : WF s) (d n : NodeId) (nm : List Nat) :
    WF (renameNodeCore s d n nm).1 := by
  unfold renameNodeCore
  split
  · rename_i rd rn hd hn
    split; · exact h
    split; · exact h
    split
    · rename_i hk
      split; · exact h
      apply wf_setNameOf s h n nm
      intro e re he hm
      obtain ⟨ra, hra, hka, _⟩ := h.attrLink e re n he hm
      rw [hn] at hra; cases hra; rw [hk] at hka; cases hka
    · split
      · rename_i hk
        split; · exact h
        split
        · rename_i hoe
          apply wf_setNameOf s h n nm
          intro e re he hm
          obtain ⟨ra, hra, _, h2, _⟩ := h.attrLink e re n he hm
          rw [hn] at hra; cases hra; rw [hoe] at h2; cases h2
        · rename_i e hoe
          simp only
          obtain ⟨re, hre, hmem⟩ := h.attrBack n rn e hn hoe
          obtain ⟨rn2, hrn2, _, _, hown⟩ := h.attrLink e re n hre hmem
          rw [hn] at hrn2; cases hrn2
          have hke : re.kind = .element := h.attrsElem e re hre (List.ne_nil_of_mem hmem)
          have hen : e ≠ n := by
            intro hen; subst hen
            rw [hn] at hre; cases hre; rw [hk] at hke; cases hke
          -- s1: unlinked and renamed
          have hwu := wf_unlinkAttr s h n
          have hgu := get_unlinkAttr s n
          have hw1 : WF (setNameOf (unlinkAttr s n) n nm) := by
            apply wf_setNameOf _ hwu n nm
            intro e' re' he' hm
            obtain ⟨re0, _, rfl⟩ := get_map_some hgu he'
            simp at hm
          have hg1 : ∀ i, (setNameOf (unlinkAttr s n) n nm).get i = ((unlinkAttr s n).get i).map _ :=
            get_setNameOf (unlinkAttr s n) n nm
          generalize hs1 : setNameOf (unlinkAttr s n) n nm = s1 at hw1 hg1
          have he1 : s1.get e = some { re with attrs := re.attrs.filter (fun x => x != n) } := by
            rw [hg1, hgu, hre]; simp [hen]
          have hn1 : s1.get n = some { rn with attrs := rn.attrs.filter (fun x => x != n), ownerElem := none, name := nm } := by
            rw [hg1, hgu, hn]; simp
          rw [he1]
          simp only
          split
          · rename_i prev hfind
            obtain ⟨hmem', hpn⟩ := findAttr_some s1 _ nm prev hfind
            have hw2 := wf_unlinkAttr s1 hw1 prev
            have hg2 := get_unlinkAttr s1 prev
            have hpne : prev ≠ n := by
              intro hp; subst hp; simp at hmem'
            have hname : nameOf (unlinkAttr s1 prev) = nameOf s1 := by
              apply nameOf_congr; intro x; rw [hg2]; cases s1.get x <;> rfl
            apply wf_linkAttr _ hw2 e n nm _ _ (get_map_of hg2 he1) (get_map_of hg2 hn1) hen hke hk
              (by simp [Ne.symm hpne]) hown rfl
            intro x hx
            simp only [List.mem_filter, bne_iff_ne, ne_eq] at hx
            rw [hname]
            intro hxn
            have hs := hw1.attrSorted e _ he1
            exact hx.2 (sorted_inj (nameOf s1) _ hs x prev
              (by simp [List.mem_filter, hx.1.1, hx.1.2]) hmem' (by rw [hxn, hpn]))
          · rename_i hfind
            exact wf_linkAttr s1 hw1 e n nm _ _ he1 hn1 hen hke hk rfl hown rfl (findAttr_none s1 _ nm hfind)
      · exact h
  · exact h

-- ------------------------------------------------------------------ failed operations change nothing
macro "unch_tac" : tactic => `(tactic| ((repeat' (first | split | dsimp only)) <;> first | exact Or.inl rfl | exact Or.inr rfl))

theorem createNode_unch (s : Store) (d : NodeId) (c : Option (List Nat)) (mk : NodeRec) :
    (createNode s d c mk).1 = s ∨ (createNode s d c mk).2.isOk = true := by
  unfold createNode; unch_tac
theorem insertBeforeCore_unch (s : Store) (p n : NodeId) (ref : Option NodeId) (a b : Bool) :
    (insertBeforeCore s p n ref a b).1 = s ∨ (insertBeforeCore s p n ref a b).2.isOk = true := by
  unfold insertBeforeCore; unch_tac
theorem removeChildCore_unch (s : Store) (p c : NodeId) :
    (removeChildCore s p c).1 = s ∨ (removeChildCore s p c).2.isOk = true := by
  unfold removeChildCore; unch_tac
theorem replaceChildCore_unch (s : Store) (p n o : NodeId) :
    (replaceChildCore s p n o).1 = s ∨ (replaceChildCore s p n o).2.isOk = true := by
  unfold replaceChildCore; unch_tac
theorem setAttributeCore_unch (s : Store) (e : NodeId) (nm v : List Nat) :
    (setAttributeCore s e nm v).1 = s ∨ (setAttributeCore s e nm v).2.isOk = true := by
  unfold setAttributeCore; unch_tac
theorem removeAttributeCore_unch (s : Store) (e : NodeId) (nm : List Nat) :
    (removeAttributeCore s e nm).1 = s ∨ (removeAttributeCore s e nm).2.isOk = true := by
  unfold removeAttributeCore; unch_tac
theorem setAttributeNodeCore_unch (s : Store) (e a : NodeId) :
    (setAttributeNodeCore s e a).1 = s ∨ (setAttributeNodeCore s e a).2.isOk = true := by
  unfold setAttributeNodeCore; unch_tac
theorem removeAttributeNodeCore_unch (s : Store) (e a : NodeId) :
    (removeAttributeNodeCore s e a).1 = s ∨ (removeAttributeNodeCore s e a).2.isOk = true := by
  unfold removeAttributeNodeCore; unch_tac
theorem setValueOp_unch (s : Store) (a : NodeId) (v : List Nat) :
    (setValueOp s a v).1 = s ∨ (setValueOp s a v).2.isOk = true := by
  unfold setValueOp; unch_tac
theorem charDataOp_unch (s : Store) (t : NodeId) (op : CDOp) :
    (charDataOp s t op).1 = s ∨ (charDataOp s t op).2.isOk = true := by
  unfold charDataOp; unch_tac
theorem splitTextCore_unch (s : Store) (t off : Nat) :
    (splitTextCore s t off).1 = s ∨ (splitTextCore s t off).2.isOk = true := by
  unfold splitTextCore; unch_tac
theorem cloneNodeCore_unch (s : Store) (n : NodeId) (d : Bool) :
    (cloneNodeCore s n d).1 = s ∨ (cloneNodeCore s n d).2.isOk = true := by
  unfold cloneNodeCore cloneInto; unch_tac
theorem importNodeCore_unch (s : Store) (d n : NodeId) (dp : Bool) :
    (importNodeCore s d n dp).1 = s ∨ (importNodeCore s d n dp).2.isOk = true := by
  unfold importNodeCore cloneInto; unch_tac
theorem adoptNodeCore_unch (s : Store) (d n : NodeId) :
    (adoptNodeCore s d n).1 = s ∨ (adoptNodeCore s d n).2.isOk = true := by
  unfold adoptNodeCore; unch_tac
theorem normalizeCore_unch (s : Store) (n : NodeId) :
    (normalizeCore s n).1 = s ∨ (normalizeCore s n).2.isOk = true := by
  unfold normalizeCore; unch_tac
theorem renameNodeCore_unch (s : Store) (d n : NodeId) (nm : List Nat) :
    (renameNodeCore s d n nm).1 = s ∨ (renameNodeCore s d n nm).2.isOk = true := by
  unfold renameNodeCore; unch_tac

theorem step_unch (s : Store) (op : Op) : (step s op).1 = s ∨ (step s op).2.isOk = true := by
  cases op <;> simp only [step]
  all_goals first
    | exact createNode_unch ..
    | exact insertBeforeCore_unch ..
    | exact removeChildCore_unch ..
    | exact replaceChildCore_unch ..
    | exact setAttributeCore_unch ..
    | exact removeAttributeCore_unch ..
    | exact setAttributeNodeCore_unch ..
    | exact removeAttributeNodeCore_unch ..
    | exact setValueOp_unch ..
    | exact charDataOp_unch ..
    | exact splitTextCore_unch ..
    | exact cloneNodeCore_unch ..
    | exact importNodeCore_unch ..
    | exact adoptNodeCore_unch ..
    | exact normalizeCore_unch ..
    | exact renameNodeCore_unch ..

-- ------------------------------------------------------------------ initial store, CharacterData arithmetic
theorem get_init (n i : Nat) :
    (init n).get i = if i < n then some { kind := .document, owner := i } else none := by
  unfold init Store.get
  simp only [List.getElem?_toArray, List.getElem?_map]
  by_cases h : i < n
  · rw [List.getElem?_range h, if_pos h]; rfl
  · rw [if_neg h, List.getElem?_eq_none (by simpa using h)]; rfl

theorem wf_init (n : Nat) : WF (init n) := by
  have hg := get_init n
  have hrec : ∀ i r, (init n).get i = some r → i < n ∧ r = { kind := .document, owner := i } := by
    intro i r h
    rw [hg] at h
    split at h
    · exact ⟨‹_›, by simpa using h.symm⟩
    · cases h
  constructor
  · intro p r c hp hc; obtain ⟨_, rfl⟩ := hrec p r hp; cases hc
  · intro c rc p hc hp; obtain ⟨_, rfl⟩ := hrec c rc hc; cases hp
  · intro p r hp; obtain ⟨_, rfl⟩ := hrec p r hp; exact List.nodup_nil
  · exact ⟨fun _ => 0, fun c rc p hc hp => by obtain ⟨_, rfl⟩ := hrec c rc hc; cases hp⟩
  · intro i r hi
    obtain ⟨hlt, rfl⟩ := hrec i r hi
    exact ⟨_, by rw [hg, if_pos hlt], rfl, rfl⟩
  · intro i r hi _; obtain ⟨_, rfl⟩ := hrec i r hi; rfl
  · intro c rc p rp hc hp _; obtain ⟨_, rfl⟩ := hrec c rc hc; cases hp
  · intro i r hi _; obtain ⟨_, rfl⟩ := hrec i r hi; rfl
  · intro e re a he ha; obtain ⟨_, rfl⟩ := hrec e re he; cases ha
  · intro a ra e ha he; obtain ⟨_, rfl⟩ := hrec a ra ha; cases he
  · intro e re he; obtain ⟨_, rfl⟩ := hrec e re he; exact List.Pairwise.nil
  · intro e re he hne; obtain ⟨_, rfl⟩ := hrec e re he; exact absurd rfl hne

-- ------------------------------------------------------------------ CharacterData arithmetic
theorem length_insertAtOff (l d : List Nat) (off : Nat) (h : off ≤ l.length) :
    (insertAtOff l off d).length = l.length + d.length := by
  unfold insertAtOff
  simp only [List.length_append, List.length_take, List.length_drop]
  omega

theorem substr_insertAtOff (l d : List Nat) (off : Nat) (h : off ≤ l.length) :
    substr (insertAtOff l off d) off d.length = d := by
  unfold substr insertAtOff
  rw [List.append_assoc, List.drop_append_of_le_length (by simp; omega)]
  have : (l.take off).length = off := by simp; omega
  rw [List.drop_of_length_le (by omega), List.nil_append, List.take_append_of_le_length (by omega),
    List.take_length]

theorem delete_insertAtOff (l d : List Nat) (off : Nat) (h : off ≤ l.length) :
    deleteRange (insertAtOff l off d) off d.length = l := by
  unfold deleteRange insertAtOff
  have hlen : (l.take off).length = off := by simp; omega
  rw [List.append_assoc, List.take_append_of_le_length (by omega), List.take_of_length_le (by omega)]
  rw [← List.append_assoc, List.drop_append_of_le_length (by simp; omega)]
  rw [List.drop_of_length_le (by simp; omega), List.nil_append]
  exact List.take_append_drop off l

theorem length_deleteRange (l : List Nat) (off cnt : Nat) (h : off ≤ l.length) :
    (deleteRange l off cnt).length = l.length - min cnt (l.length - off) := by
  unfold deleteRange
  simp only [List.length_append, List.length_take, List.length_drop]
  omega

theorem length_substr (l : List Nat) (off cnt : Nat) :
    (substr l off cnt).length = min cnt (l.length - off) := by
  unfold substr; simp [List.length_take, List.length_drop]

theorem substr_getElem (l : List Nat) (off cnt i : Nat) (hi : i < cnt) :
    (substr l off cnt)[i]? = l[off + i]? := by
  unfold substr
  rw [List.getElem?_take_of_lt hi, List.getElem?_drop]

-- ------------------------------------------------------------------ cloneNode / importNode
theorem get_allocMany (s : Store) (rs : List NodeRec) (i : NodeId) :
    (s.allocMany rs).get i = if i < s.size then s.get i else rs[i - s.size]? := by
  unfold Store.allocMany Store.get Store.size
  simp only [Array.getElem?_append]
  split
  · rfl
  · simp only [List.getElem?_toArray, List.getElem?_map]
    cases rs[i - s.nodes.size]? <;> rfl

theorem cloneRec_fields (n : NodeId) (D : List NodeId) (f : NodeId → NodeId) (dk : Bool) (doc x : NodeId) (r : NodeRec) :
    (cloneRec n D f dk doc x r).kind = r.kind ∧ (cloneRec n D f dk doc x r).name = r.name ∧
    (cloneRec n D f dk doc x r).owner = doc := ⟨rfl, rfl, rfl⟩

theorem cloneRec_parent (n : NodeId) (D : List NodeId) (f : NodeId → NodeId) (dk : Bool) (doc x : NodeId) (r : NodeRec)
    (p' : NodeId) (h : (cloneRec n D f dk doc x r).parent = some p') :
    x ≠ n ∧ ∃ q, r.parent = some q ∧ q ∈ D ∧ ¬ (q = n ∧ dk = true) ∧ p' = f q := by
  unfold cloneRec at h
  simp only at h
  split at h
  · cases h
  · rename_i hxn
    refine ⟨hxn, ?_⟩
    split at h
    · rename_i q hq
      split at h
      · rename_i hc
        simp only [Bool.and_eq_true, Bool.not_eq_true', List.contains_iff_mem] at hc
        refine ⟨q, hq, hc.1, ?_, by simpa using h.symm⟩
        rintro ⟨rfl, hdk⟩
        simp [hdk] at hc
      · cases h
    · cases h

theorem cloneRec_parent_of (n : NodeId) (D : List NodeId) (f : NodeId → NodeId) (dk : Bool) (doc x : NodeId) (r : NodeRec)
    (q : NodeId) (hxn : x ≠ n) (hq : r.parent = some q) (hqD : q ∈ D) (hdk : ¬ (q = n ∧ dk = true)) :
    (cloneRec n D f dk doc x r).parent = some (f q) := by
  unfold cloneRec
  simp only [if_neg hxn, hq]
  have : (D.contains q && !(q == n && dk)) = true := by
    simp only [Bool.and_eq_true, List.contains_iff_mem, hqD, true_and, Bool.not_eq_true']
    by_cases h1 : q = n
    · subst h1
      have : dk = false := by
        cases dk
        · rfl
        · exact absurd ⟨rfl, rfl⟩ hdk
      simp [this]
    · simp [h1]
  rw [if_pos this]

theorem cloneRec_ownerElem (n : NodeId) (D : List NodeId) (f : NodeId → NodeId) (dk : Bool) (doc x : NodeId) (r : NodeRec)
    (p' : NodeId) (h : (cloneRec n D f dk doc x r).ownerElem = some p') :
    x ≠ n ∧ ∃ e, r.ownerElem = some e ∧ e ∈ D ∧ p' = f e := by
  unfold cloneRec at h
  simp only at h
  split at h
  · cases h
  · rename_i hxn
    refine ⟨hxn, ?_⟩
    split at h
    · rename_i e he
      split at h
      · rename_i hc
        exact ⟨e, he, by simpa using hc, by simpa using h.symm⟩
      · cases h
    · cases h

theorem cloneRec_ownerElem_of (n : NodeId) (D : List NodeId) (f : NodeId → NodeId) (dk : Bool) (doc x : NodeId) (r : NodeRec)
    (e : NodeId) (hxn : x ≠ n) (he : r.ownerElem = some e) (heD : e ∈ D) :
    (cloneRec n D f dk doc x r).ownerElem = some (f e) := by
  unfold cloneRec
  simp only [if_neg hxn, he]
  rw [if_pos (by simpa using heD)]

theorem cloneRec_children_mem (n : NodeId) (D : List NodeId) (f : NodeId → NodeId) (dk : Bool) (doc x : NodeId) (r : NodeRec)
    (c' : NodeId) (h : c' ∈ (cloneRec n D f dk doc x r).children) :
    ¬ (x = n ∧ dk = true) ∧ ∃ c, c ∈ r.children ∧ c ∈ D ∧ c ≠ n ∧ c' = f c := by
  unfold cloneRec at h
  simp only at h
  split at h
  · cases h
  · rename_i hc
    refine ⟨by simpa using hc, ?_⟩
    rw [List.mem_map] at h
    obtain ⟨c, hc, rfl⟩ := h
    rw [List.mem_filter] at hc
    simp only [Bool.and_eq_true, List.contains_iff_mem, bne_iff_ne, ne_eq] at hc
    exact ⟨c, hc.1, hc.2.1, hc.2.2, rfl⟩

theorem cloneRec_children_eq (n : NodeId) (D : List NodeId) (f : NodeId → NodeId) (dk : Bool) (doc x : NodeId) (r : NodeRec)
    (h : ¬ (x = n ∧ dk = true)) :
    (cloneRec n D f dk doc x r).children = (r.children.filter (fun c => D.contains c && c != n)).map f := by
  unfold cloneRec
  simp only
  rw [if_neg (by simpa using h)]

theorem cloneRec_attrs (n : NodeId) (D : List NodeId) (f : NodeId → NodeId) (dk : Bool) (doc x : NodeId) (r : NodeRec) :
    (cloneRec n D f dk doc x r).attrs = (r.attrs.filter (fun c => D.contains c && c != n)).map f := rfl

theorem mem_filter_Dn (D : List NodeId) (n : NodeId) (l : List NodeId) (c : NodeId) :
    c ∈ l.filter (fun c => D.contains c && c != n) ↔ c ∈ l ∧ c ∈ D ∧ c ≠ n := by
  simp [List.mem_filter]

theorem nodup_map_on (f : NodeId → NodeId) (l : List NodeId) (hl : l.Nodup)
    (hf : ∀ a b, a ∈ l → b ∈ l → f a = f b → a = b) : (l.map f).Nodup := by
  unfold List.Nodup at *
  rw [List.pairwise_map]
  exact hl.imp_of_mem (fun ha hb hne heq => hne (hf _ _ ha hb heq))

theorem wf_cloneInto (s : Store) (h : WF s) (n : NodeId) (rn : NodeRec) (deep : Bool)
    (doc : NodeId) (rd : NodeRec) (hd : s.get doc = some rd) (hdk : rd.kind = .document) :
    WF (cloneInto s n rn deep doc).1 := by
  unfold cloneInto
  simp only
  generalize hD : cloneSet s n rn deep = D
  generalize hdkv : (!deep && rn.kind != .attr) = dk
  have hdo : rd.owner = doc := h.docSelf doc rd hd hdk
  -- facts about D
  have hDlive : ∀ x, x ∈ D → ∃ r, s.get x = some r ∧ r.kind ≠ .document := by
    intro x hx
    rw [← hD] at hx
    unfold cloneSet at hx
    rw [List.mem_filter] at hx
    have h1 := hx.2
    simp only [Bool.and_eq_true] at h1
    obtain ⟨⟨hsome, hnd⟩, _⟩ := h1
    cases hg : s.get x with
    | none => rw [hg] at hsome; cases hsome
    | some r =>
      refine ⟨r, rfl, ?_⟩
      intro hk
      unfold isKind at hnd
      rw [hg] at hnd
      simp [hk] at hnd
  have hDnd : D.Nodup := by
    rw [← hD]; unfold cloneSet; exact List.nodup_range.filter _
  generalize hf : cloneId s.size D = f
  have hfdef : ∀ x, f x = s.size + D.idxOf x := fun x => by rw [← hf]; rfl
  have hfge : ∀ x, s.size ≤ f x := fun x => by rw [hfdef]; exact Nat.le_add_right _ _
  have hfsub : ∀ x, f x - s.size = D.idxOf x := fun x => by rw [hfdef]; exact Nat.add_sub_cancel_left _ _
  have finj : ∀ x y, x ∈ D → y ∈ D → f x = f y → x = y := by
    intro x y hx hy hxy
    have hi : D.idxOf x = D.idxOf y := by
      rw [hfdef, hfdef] at hxy
      exact Nat.add_left_cancel hxy
    have h1 := List.getElem_idxOf (List.idxOf_lt_length_of_mem hx)
    have h2 := List.getElem_idxOf (List.idxOf_lt_length_of_mem hy)
    rw [← h1, ← h2]
    simp only [hi]
  generalize hrecs : (D.map fun x => match s.get x with
    | some r => cloneRec n D f dk doc x r
    | none => { kind := .text, owner := doc }) = recs
  have hg := get_allocMany s recs
  have hold : ∀ i r, s.get i = some r → (s.allocMany recs).get i = some r := by
    intro i r hi; rw [hg, if_pos (lt_size_of_get s i r hi)]; exact hi
  have hnew : ∀ x r, x ∈ D → s.get x = some r → (s.allocMany recs).get (f x) = some (cloneRec n D f dk doc x r) := by
    intro x r hx hr
    rw [hg, if_neg (Nat.not_lt.mpr (hfge x)), hfsub]
    have hlt := List.idxOf_lt_length_of_mem hx
    rw [← hrecs, List.getElem?_map, List.getElem?_eq_getElem hlt, List.getElem_idxOf hlt]
    simp [hr]
  have hinv : ∀ i r', (s.allocMany recs).get i = some r' →
      (i < s.size ∧ s.get i = some r') ∨ (∃ x r, x ∈ D ∧ s.get x = some r ∧ i = f x ∧ r' = cloneRec n D f dk doc x r) := by
    intro i r' hi
    rw [hg] at hi
    split at hi
    · exact Or.inl ⟨‹_›, hi⟩
    · rename_i hge
      right
      have hi' := hi
      rw [← hrecs, List.getElem?_map] at hi'
      cases hk : D[i - s.size]? with
      | none => rw [hk] at hi'; cases hi'
      | some x =>
        rw [hk] at hi'
        obtain ⟨hlt, hx⟩ := List.getElem?_eq_some_iff.mp hk
        have hxD : x ∈ D := hx ▸ List.getElem_mem hlt
        obtain ⟨r, hr, _⟩ := hDlive x hxD
        refine ⟨x, r, hxD, hr, ?_, ?_⟩
        · have : D.idxOf x = i - s.size := by rw [← hx]; exact hDnd.idxOf_getElem _ hlt
          have hge' := Nat.le_of_not_lt hge
          rw [hfdef, this]
          exact (Nat.add_sub_of_le hge').symm
        · simp [hr] at hi'; exact hi'.symm
  constructor
  · -- childParent
    intro p r' c hp hc
    rcases hinv p r' hp with ⟨_, hp'⟩ | ⟨x, r, hxD, hr, rfl, rfl⟩
    · obtain ⟨rc, hrc, hpar⟩ := h.childParent p r' c hp' hc
      exact ⟨rc, hold c rc hrc, hpar⟩
    · obtain ⟨hnk, c0, hc0, hc0D, hc0n, rfl⟩ := cloneRec_children_mem n D f dk doc x r c hc
      obtain ⟨rc, hrc, hpar⟩ := h.childParent x r c0 hr hc0
      exact ⟨_, hnew c0 rc hc0D hrc, cloneRec_parent_of n D f dk doc c0 rc x hc0n hpar hxD hnk⟩
  · -- parentChild
    intro c rc' p hc hp
    rcases hinv c rc' hc with ⟨_, hc'⟩ | ⟨x, r, hxD, hr, rfl, rfl⟩
    · obtain ⟨rp, hrp, hm⟩ := h.parentChild c rc' p hc' hp
      exact ⟨rp, hold p rp hrp, hm⟩
    · obtain ⟨hxn, q, hq, hqD, hnk, rfl⟩ := cloneRec_parent n D f dk doc x r p hp
      obtain ⟨rq, hrq, hm⟩ := h.parentChild x r q hr hq
      refine ⟨_, hnew q rq hqD hrq, ?_⟩
      rw [cloneRec_children_eq n D f dk doc q rq hnk, List.mem_map]
      exact ⟨x, (mem_filter_Dn D n _ x).mpr ⟨hm, hxD, hxn⟩, rfl⟩
  · -- nodup
    intro p r' hp
    rcases hinv p r' hp with ⟨_, hp'⟩ | ⟨x, r, hxD, hr, rfl, rfl⟩
    · exact h.nodupChildren p r' hp'
    · by_cases hnk : x = n ∧ dk = true
      · have : (cloneRec n D f dk doc x r).children = [] := by
          show (cloneRec n D f dk doc x r).children = []
          unfold cloneRec; simp only; rw [if_pos (by simpa using hnk)]
        rw [this]; exact List.nodup_nil
      · show (cloneRec n D f dk doc x r).children.Nodup
        rw [cloneRec_children_eq n D f dk doc x r hnk]
        apply nodup_map_on f _ ((h.nodupChildren x r hr).filter _)
        intro a b ha hb hab
        exact finj a b ((mem_filter_Dn D n _ a).mp ha).2.1 ((mem_filter_Dn D n _ b).mp hb).2.1 hab
  · -- acyclic
    obtain ⟨rank, hrank⟩ := h.acyclic
    refine ⟨fun i => if i < s.size then rank i else match D[i - s.size]? with
      | some x => rank x
      | none => 0, ?_⟩
    have hrf : ∀ x, x ∈ D → (if f x < s.size then rank (f x) else match D[f x - s.size]? with
        | some x => rank x
        | none => 0) = rank x := by
      intro x hx
      rw [if_neg (Nat.not_lt.mpr (hfge x)), hfsub]
      have hlt := List.idxOf_lt_length_of_mem hx
      rw [List.getElem?_eq_getElem hlt, List.getElem_idxOf hlt]
    intro c rc' p hc hp
    rcases hinv c rc' hc with ⟨hlt, hc'⟩ | ⟨x, r, hxD, hr, rfl, rfl⟩
    · obtain ⟨rp, hrp, _⟩ := h.parentChild c rc' p hc' hp
      simp only [if_pos hlt, if_pos (lt_size_of_get s p rp hrp)]
      exact hrank c rc' p hc' hp
    · obtain ⟨_, q, hq, hqD, _, rfl⟩ := cloneRec_parent n D f dk doc x r p hp
      simp only []
      rw [hrf x hxD, hrf q hqD]
      exact hrank x r q hr hq
  · -- ownerDoc
    intro i r' hi
    rcases hinv i r' hi with ⟨_, hi'⟩ | ⟨x, r, hxD, hr, rfl, rfl⟩
    · obtain ⟨ro, hro, hk, ho⟩ := h.ownerDoc i r' hi'
      exact ⟨ro, hold _ ro hro, hk, ho⟩
    · exact ⟨rd, hold doc rd hd, hdk, hdo⟩
  · -- docSelf
    intro i r' hi hk
    rcases hinv i r' hi with ⟨_, hi'⟩ | ⟨x, r, hxD, hr, rfl, rfl⟩
    · exact h.docSelf i r' hi' hk
    · obtain ⟨r2, hr2, hnd⟩ := hDlive x hxD
      rw [hr] at hr2; cases hr2
      exact absurd hk hnd
  · -- ownerUniform
    intro c rc' p rp' hc hp hp'
    rcases hinv c rc' hc with ⟨_, hc'⟩ | ⟨x, r, hxD, hr, rfl, rfl⟩
    · obtain ⟨rp, hrp, _⟩ := h.parentChild c rc' p hc' hp
      have e : rp' = rp := Option.some.inj (hp'.symm.trans (hold p rp hrp))
      rw [e]; exact h.ownerUniform c rc' p rp hc' hp hrp
    · obtain ⟨_, q, hq, hqD, _, rfl⟩ := cloneRec_parent n D f dk doc x r p hp
      obtain ⟨rq, hrq, _⟩ := hDlive q hqD
      have e : rp' = cloneRec n D f dk doc q rq := Option.some.inj (hp'.symm.trans (hnew q rq hqD hrq))
      rw [e]; rfl
  · -- rootKinds
    intro i r' hi hk
    rcases hinv i r' hi with ⟨_, hi'⟩ | ⟨x, r, hxD, hr, rfl, rfl⟩
    · exact h.rootKinds i r' hi' hk
    · have hp := h.rootKinds x r hr hk
      show (cloneRec n D f dk doc x r).parent = none
      unfold cloneRec; simp only [hp]; split <;> rfl
  · -- attrLink
    intro e re' a he ha
    rcases hinv e re' he with ⟨_, he'⟩ | ⟨x, r, hxD, hr, rfl, rfl⟩
    · obtain ⟨ra, hra, h1, h2, h3⟩ := h.attrLink e re' a he' ha
      exact ⟨ra, hold a ra hra, h1, h2, h3⟩
    · have ha' : a ∈ (r.attrs.filter (fun c => D.contains c && c != n)).map f := ha
      rw [List.mem_map] at ha'
      obtain ⟨a0, ha0, rfl⟩ := ha'
      obtain ⟨hm, ha0D, ha0n⟩ := (mem_filter_Dn D n _ a0).mp ha0
      obtain ⟨ra, hra, h1, h2, _⟩ := h.attrLink x r a0 hr hm
      exact ⟨_, hnew a0 ra ha0D hra, h1, cloneRec_ownerElem_of n D f dk doc a0 ra x ha0n h2 hxD, rfl⟩
  · -- attrBack
    intro a ra' e ha he
    rcases hinv a ra' ha with ⟨_, ha'⟩ | ⟨x, r, hxD, hr, rfl, rfl⟩
    · obtain ⟨re, hre, hm⟩ := h.attrBack a ra' e ha' he
      exact ⟨re, hold e re hre, hm⟩
    · obtain ⟨hxn, e0, he0, he0D, rfl⟩ := cloneRec_ownerElem n D f dk doc x r e he
      obtain ⟨re, hre, hm⟩ := h.attrBack x r e0 hr he0
      refine ⟨_, hnew e0 re he0D hre, ?_⟩
      show f x ∈ (re.attrs.filter (fun c => D.contains c && c != n)).map f
      rw [List.mem_map]
      exact ⟨x, (mem_filter_Dn D n _ x).mpr ⟨hm, hxD, hxn⟩, rfl⟩
  · -- attrSorted
    intro e re' he
    rcases hinv e re' he with ⟨_, he'⟩ | ⟨x, r, hxD, hr, rfl, rfl⟩
    · have : re'.attrs.map (nameOf (s.allocMany recs)) = re'.attrs.map (nameOf s) := by
        apply List.map_congr_left
        intro a ha
        obtain ⟨ra, hra, _⟩ := h.attrLink e re' a he' ha
        unfold nameOf; rw [hold a ra hra, hra]
      rw [this]; exact h.attrSorted e re' he'
    · show (((r.attrs.filter (fun c => D.contains c && c != n)).map f).map (nameOf (s.allocMany recs))).Pairwise _
      have : ((r.attrs.filter (fun c => D.contains c && c != n)).map f).map (nameOf (s.allocMany recs)) =
          (r.attrs.filter (fun c => D.contains c && c != n)).map (nameOf s) := by
        rw [List.map_map]
        apply List.map_congr_left
        intro a ha
        obtain ⟨hm, haD, _⟩ := (mem_filter_Dn D n _ a).mp ha
        obtain ⟨ra, hra, _⟩ := h.attrLink x r a hr hm
        simp only [Function.comp]
        unfold nameOf; rw [hnew a ra haD hra, hra]; rfl
      rw [this]
      exact List.Pairwise.sublist (List.Sublist.map _ List.filter_sublist) (h.attrSorted x r hr)
  · -- attrsElem
    intro e re' he hne
    rcases hinv e re' he with ⟨_, he'⟩ | ⟨x, r, hxD, hr, rfl, rfl⟩
    · exact h.attrsElem e re' he' hne
    · show r.kind = .element
      apply h.attrsElem x r hr
      intro hnil
      apply hne
      show (r.attrs.filter (fun c => D.contains c && c != n)).map f = []
      rw [hnil]; rfl

-- ------------------------------------------------------------------ normalize
theorem wf_cloneNodeCore (s : Store) (h : WF s) (n : NodeId) (deep : Bool) : WF (cloneNodeCore s n deep).1 := by
  unfold cloneNodeCore
  split
  · exact h
  · rename_i rn hn
    split; · exact h
    obtain ⟨rd, hrd, hk, _⟩ := h.ownerDoc n rn hn
    exact wf_cloneInto s h n rn deep rn.owner rd hrd hk

theorem wf_importNodeCore (s : Store) (h : WF s) (d n : NodeId) (deep : Bool) :
    WF (importNodeCore s d n deep).1 := by
  unfold importNodeCore
  split
  · rename_i rd rn hd hn
    split; · exact h
    rename_i hk
    split; · exact h
    exact wf_cloneInto s h n rn _ d rd hd (by simpa using hk)
  · exact h

theorem normKids_sublist (s : Store) : ∀ (b : Bool) (l : List NodeId), (normKids s b l).Sublist l := by
  intro b l
  induction l generalizing b with
  | nil => simp [normKids]
  | cons k rest ih =>
    unfold normKids
    split
    · split
      · exact (ih true).cons _
      · exact (ih true).cons_cons _
    · exact (ih false).cons_cons _

theorem normKids_keeps (s : Store) : ∀ (b : Bool) (l : List NodeId) (c : NodeId), c ∈ l →
    isKind s .text c = false → c ∈ normKids s b l := by
  intro b l
  induction l generalizing b with
  | nil => intro c hc; cases hc
  | cons k rest ih =>
    intro c hc hnt
    unfold normKids
    rcases List.mem_cons.mp hc with rfl | hc'
    · simp [hnt]
    · split
      · split
        · exact ih true c hc' hnt
        · exact List.mem_cons_of_mem _ (ih true c hc' hnt)
      · exact List.mem_cons_of_mem _ (ih false c hc' hnt)

theorem keptKids_sublist (s : Store) (l : List NodeId) : (keptKids s l).Sublist l :=
  List.Sublist.trans List.filter_sublist (normKids_sublist s false l)

theorem keptKids_keeps (s : Store) (l : List NodeId) (c : NodeId) (hc : c ∈ l)
    (hnt : isKind s .text c = false) : c ∈ keptKids s l := by
  unfold keptKids
  rw [List.mem_filter]
  exact ⟨normKids_keeps s false l c hc hnt, by simp [hnt]⟩

theorem get_normalize (s : Store) (n : NodeId) (i : NodeId) :
    (s.mapNodes fun i r => some (normF s n i r)).get i = (s.get i).map (normF s n i) := by
  rw [get_mapNodes]; cases s.get i <;> rfl

theorem visited_eq (s : Store) (n q : NodeId) (rq : NodeRec) (hq : s.get q = some rq) :
    visited s n q = (normReach s n q && !isLeaf rq.kind) := by
  unfold visited; rw [hq]

theorem wf_normalizeCore (s : Store) (h : WF s) (n : NodeId) : WF (normalizeCore s n).1 := by
  unfold normalizeCore
  split
  · exact h
  · split; · exact h
    show WF (s.mapNodes fun i r => some (normF s n i r))
    obtain ⟨ht, hd, ha⟩ := (wf_parts s).mp h
    have hg := get_normalize s n
    refine (wf_parts _).mpr ⟨?_, docWF_frame hg (fun i r => ⟨rfl, rfl⟩) hd,
      attrWF_frame hg (fun i r => ⟨rfl, rfl, rfl, rfl, rfl⟩) ha⟩
    have hchsub : ∀ i r, ((normF s n i r).children).Sublist r.children := by
      intro i r
      show (if visited s n i then keptKids s r.children else r.children).Sublist r.children
      split
      · exact keptKids_sublist s _
      · exact List.Sublist.refl _
    have hpar : ∀ i r p, (normF s n i r).parent = some p → r.parent = some p ∧ mergedAway s n i r = false := by
      intro i r p hp
      have hp' : (if mergedAway s n i r then none else r.parent) = some p := hp
      split at hp'
      · cases hp'
      · exact ⟨hp', by simpa using ‹¬ mergedAway s n i r = true›⟩
    constructor
    · intro p r' c hp hc
      obtain ⟨r, hr, rfl⟩ := get_map_some hg hp
      have hc0 : c ∈ r.children := (hchsub p r).subset hc
      obtain ⟨rc, hrc, hparc⟩ := ht.childParent p r c hr hc0
      refine ⟨_, get_map_of hg hrc, ?_⟩
      show (if mergedAway s n c rc then none else rc.parent) = some p
      have hnm : mergedAway s n c rc = false := by
        cases hm : mergedAway s n c rc with
        | false => rfl
        | true =>
          exfalso
          unfold mergedAway at hm
          rw [hparc] at hm
          simp only [Bool.and_eq_true, Bool.not_eq_true', List.contains_eq_mem, decide_eq_false_iff_not] at hm
          obtain ⟨_, hv, hnot⟩ := hm
          have hc' : c ∈ (if visited s n p then keptKids s r.children else r.children) := hc
          rw [if_pos hv] at hc'
          apply hnot
          unfold parentKids; rw [hr]; exact hc'
      rw [hnm]; exact hparc
    · intro c rc' p hc hp
      obtain ⟨rc, hrc, rfl⟩ := get_map_some hg hc
      obtain ⟨hp0, hnm⟩ := hpar c rc p hp
      obtain ⟨r, hr, hm⟩ := ht.parentChild c rc p hrc hp0
      refine ⟨_, get_map_of hg hr, ?_⟩
      show c ∈ (if visited s n p then keptKids s r.children else r.children)
      split
      · rename_i hv
        by_cases htext : isKind s .text c = true
        · have hk : rc.kind = .text := by
            unfold isKind at htext; rw [hrc] at htext; simpa using htext
          unfold mergedAway at hnm
          rw [hp0, hk] at hnm
          simp only [hv, Bool.true_and, beq_self_eq_true, Bool.not_eq_false'] at hnm
          unfold parentKids at hnm; rw [hr] at hnm
          simpa using hnm
        · exact keptKids_keeps s _ c hm (by simpa using htext)
      · exact hm
    · intro p r' hp
      obtain ⟨r, hr, rfl⟩ := get_map_some hg hp
      exact List.Nodup.sublist (hchsub p r) (ht.nodupChildren p r hr)
    · obtain ⟨rank, hrank⟩ := ht.acyclic
      refine ⟨rank, ?_⟩
      intro c rc' p hc hp
      obtain ⟨rc, hrc, rfl⟩ := get_map_some hg hc
      exact hrank c rc p hrc (hpar c rc p hp).1
    · intro c rc' p rp' hc hp hp'
      obtain ⟨rc, hrc, rfl⟩ := get_map_some hg hc
      obtain ⟨rp, hrp, rfl⟩ := get_map_some hg hp'
      exact ht.ownerUniform c rc p rp hrc (hpar c rc p hp).1 hrp
    · intro i r' hi hk
      obtain ⟨r, hr, rfl⟩ := get_map_some hg hi
      show (if mergedAway s n i r then none else r.parent) = none
      split
      · rfl
      · exact ht.rootKinds i r hr hk

-- ------------------------------------------------------------------ insertBefore succeeds iff DOM Core permits it
theorem isKidOK_iff (rp rc : NodeRec) :
    isKidOK rp rc = true ↔ childOK rp rc := by
  unfold isKidOK childOK
  have hc : XV.Gen.KidOK.docTextAllSpacesClause = true := by decide
  have ht : kidOKTable rp.kind rc.kind = allowedChild rp.kind rc.kind := by
    cases rp.kind <;> cases rc.kind <;> decide
  rw [ht, hc]
  simp [Bool.or_eq_true, Bool.and_eq_true, and_assoc]

theorem fragKidsBad_false_iff (s : Store) (rp : NodeRec) (kids : List NodeId) :
    fragKidsBad s rp kids = false ↔ ∀ k, k ∈ kids → ∃ rk, s.get k = some rk ∧ childOK rp rk := by
  unfold fragKidsBad
  rw [List.any_eq_false]
  constructor
  · intro h k hk
    have := h k hk
    cases hg : s.get k with
    | none => simp [hg] at this
    | some rk =>
      simp only [hg] at this
      exact ⟨rk, rfl, (isKidOK_iff rp rk).mp (by simpa using this)⟩
  · intro h k hk
    obtain ⟨rk, hrk, hok⟩ := h k hk
    simp only [hrk]
    simpa using (isKidOK_iff rp rk).mpr hok

def planOk : Except Result (List NodeId) → Bool
  | .error r => r.isOk
  | .ok _ => true

theorem planOk_exc (e : Exc) : planOk (.error (.exc e)) = false := rfl
theorem planOk_okr (v : Val) : planOk (.error (.ok v)) = true := rfl
theorem planOk_ok (l : List NodeId) : planOk (.ok l) = true := rfl

theorem insert_ok_iff (s : Store) (h : WF s) (p n : NodeId) (ref : Option NodeId) (rp rn : NodeRec)
    (hp : s.get p = some rp) (hn : s.get n = some rn) (href : refDead s ref = false) :
    (step s (.insertBefore p n ref)).2.isOk = true ↔ LegalInsert s p n rp rn ref := by
  have hstep : (step s (.insertBefore p n ref)).2.isOk = planOk (insertPlan s p n rp rn ref false false) := by
    simp only [step, insertBeforeCore, hp, hn]
    cases insertPlan s p n rp rn ref false false <;> rfl
  rw [hstep]
  unfold insertPlan
  rw [href]
  simp only [Bool.false_eq_true, if_false, apply_ite planOk, planOk_exc, planOk_okr, planOk_ok]
  constructor
  · intro hok
    split at hok; · cases hok
    rename_i hleaf
    split at hok; · cases hok
    rename_i hdoc
    split at hok; · cases hok
    rename_i hro
    split at hok; · cases hok
    rename_i hown
    split at hok; · cases hok
    rename_i hanc
    split at hok; · cases hok
    rename_i hrc
    have base : isLeaf rp.kind = false ∧ rp.readOnly = false ∧ ownerDocOf rn = some rp.owner ∧
        ¬ AncOrSelf s n p ∧ (∀ r, ref = some r → parentOf s r = some p) := by
      refine ⟨by simpa using hleaf, by simpa using hro, by simpa using hown,
        isAncOrSelf_sound s n p (by simpa using hanc), ?_⟩
      intro r hr; subst hr
      simpa [refNotChild] using hrc
    obtain ⟨b1, b2, b3, b4, b5⟩ := base
    split at hok
    · rename_i hrn
      exact ⟨b1, b2, b3, b4, b5, Or.inl hrn, hdoc⟩
    · split at hok
      · rename_i hfrag
        split at hok
        · cases hok
        · rename_i hbad
          refine ⟨b1, b2, b3, b4, b5, Or.inr ?_, hdoc⟩
          rw [if_pos hfrag]
          exact (fragKidsBad_false_iff s rp rn.children).mp (by simpa using hbad)
      · rename_i hfrag
        split at hok
        · cases hok
        · rename_i hkid
          refine ⟨b1, b2, b3, b4, b5, Or.inr ?_, hdoc⟩
          rw [if_neg hfrag]
          exact (isKidOK_iff rp rn).mp (by simpa using hkid)
  · intro hl
    obtain ⟨l1, l2, l3, l4, l5, l6, l7⟩ := hl
    have hanc := fuel_suffices s h n p rp hp l4
    have hrc : refNotChild s p ref = false := by
      cases ref with
      | none => rfl
      | some r => simp [refNotChild, l5 r rfl]
    rw [if_neg (by simp [l1]), if_neg l7, if_neg (by simp [l2]), if_neg (by simp [l3]), if_neg (by simp [hanc]),
      if_neg (by simp [hrc])]
    split
    · rfl
    · rename_i hrn
      rcases l6 with l6 | l6
      · exact absurd l6 hrn
      · split
        · rename_i hfrag
          rw [if_pos hfrag] at l6
          rw [if_neg (by simp [(fragKidsBad_false_iff s rp rn.children).mpr l6])]
        · rename_i hfrag
          rw [if_neg hfrag] at l6
          rw [if_neg (by simp [(isKidOK_iff rp rn).mpr l6])]

end XV.Lemmas.Dom
