/- Lemmas for C12 level 2: the tree serializer model (XV.Model.Serializer). -/
import XV.Lemmas.FormatterInst
import XV.Model.Serializer
namespace XV.Lemmas.Serializer
open XV.Model.Formatter XV.Model.Cdata XV.Model.Serializer XV.Gen.Escapes
open XV.Spec.Escaping
open XV.Spec.Unescape (legalUnits isChar10 isChar11 isRestricted11 refOK highSurr lowSurr parseText parseAttr)
open XV.Lemmas.Formatter

set_option maxRecDepth 8000

/-- the generated gXMLCharMask ranges of XMLChar.cpp are the Char production of XML 1.0, and for 1.1 the Char
production minus RestrictedChar (16-bit units) -/
theorem xmlchar_table_spec (c : Nat) :
    isXMLChar false c = (isChar10 c && decide (c < 65536)) ∧
    isXMLChar true c = (isChar11 c && !isRestricted11 c && decide (c < 65536)) := by
  constructor
  · rw [Bool.eq_iff_iff]
    simp [isXMLChar, inRanges, xmlChar10, isChar10]
    omega
  · rw [Bool.eq_iff_iff]
    simp [isXMLChar, inRanges, xmlChar11, isChar11, isRestricted11]
    omega

theorem xmlchar10_noSurr (c : Nat) (h : isXMLChar false c = true) :
    highSurr c = false ∧ lowSurr c = false ∧ c < 0x10000 ∧ refOK false c = true := by
  rw [(xmlchar_table_spec c).1] at h
  simp only [Bool.and_eq_true, decide_eq_true_eq] at h
  have h1 := h.1
  simp only [isChar10, Bool.or_eq_true, Bool.and_eq_true, beq_iff_eq, decide_eq_true_eq] at h1
  refine ⟨by simp [highSurr]; omega, by simp [lowSurr]; omega, h.2, by simp [refOK, h.1]⟩

theorem ensureValid_eq_legal : ∀ (k : Nat) (s : List Nat), s.length ≤ k →
    ensureValidString false s = legalUnits false s := by
  intro k
  induction k with
  | zero => intro s h; have : s = [] := by cases s <;> simp_all
            subst this; rfl
  | succ k ih =>
    intro s hl
    match s, hl with
    | [], _ => rfl
    | [c], _ =>
      simp only [ensureValidString, legalUnits]
      cases hx : isXMLChar false c with
      | true => have := xmlchar10_noSurr c hx; simp [this.1, this.2.1, this.2.2.1, this.2.2.2]
      | false =>
        rw [(xmlchar_table_spec c).1] at hx
        cases h1 : highSurr c <;> cases h2 : lowSurr c <;> simp
        intro hlt
        simp [refOK]
        simp [hlt] at hx; exact hx
    | c :: n :: t, hl =>
      simp only [ensureValidString, legalUnits]
      cases hx : isXMLChar false c with
      | true =>
        have := xmlchar10_noSurr c hx
        simp [this.1, this.2.1, this.2.2.1, this.2.2.2, ih (n :: t) (by simp at hl ⊢; omega)]
      | false =>
        have e := Rd.surr_eq c
        have en := Rd.surr_eq n
        cases hh : highSurr c with
        | true => simp [e.1, hh, en.2, ih t (by simp at hl; omega)]
        | false =>
          simp only [e.1, hh, Bool.false_eq_true, if_false]
          rw [(xmlchar_table_spec c).1] at hx
          cases h2 : lowSurr c <;> simp
          intro hlt hok
          simp [refOK] at hok
          simp [hlt, hok] at hx

/-! ### markup pieces -/

/-- a name (or other markup text) the transcoder takes as it stands -/
def NameOK (cd : Coder) (n : List Nat) : Prop := (∀ u ∈ n, cd.ok u) ∧ (cd.pairs = true → wfUnits n = true)

theorem rawF_ok (e : Env) (us : List Nat) (h : NameOK e.cd us) : rawF e us = .ok us := by
  unfold rawF formatBuf
  simp only [show (UnRepFlags.UnRep_Fail = UnRepFlags.UnRep_CharRef) = False from by simp, if_false, formatPlain, if_true]
  exact handle_ok e.cd _ us h.1 h.2

theorem escUnits_noesc (cd : Coder) (cfg : Cfg) : ∀ (us : List Nat), (∀ u ∈ us, cd.rep u = true) →
    escUnits cd cfg .NoEscapes us = us := by
  intro us
  induction us with
  | nil => intro _; rfl
  | cons c t ih =>
    intro h
    rw [escUnits_rep_cons cd cfg _ c t (h c (by simp)), ih (fun u hu => h u (by simp [hu]))]
    simp [escd]

theorem rawCR_ok (e : Env) (hg : Good e.cd) (us : List Nat) (hu : ∀ u ∈ us, u < 65536) (h : NameOK e.cd us) :
    rawCR e us = .ok us := by
  unfold rawCR
  rw [formatBuf_charRef_eq e.cd hg e.cfg .NoEscapes us hu (fun u hm _ => (h.1 u hm).2) h.2,
    escUnits_noesc e.cd e.cfg us (fun u hm => (h.1 u hm).1)]

theorem ascii_nameOK (cd : Coder) (hg : Good cd) (us : List Nat) (h : ∀ c ∈ us, 32 ≤ c ∧ c < 127) : NameOK cd us :=
  ⟨fun u hu => ⟨hg.ascii u (h u hu).1 (h u hu).2, hg.asciiBack u (h u hu).1 (h u hu).2⟩,
   fun _ => wf_of_noSurr _ (fun u hu => by have := h u hu; simp [isHigh, isLow]; omega)⟩

theorem wf_snoc_plain (x : Nat) (hx : isHigh x = false ∧ isLow x = false) :
    ∀ (k : Nat) (l : List Nat), l.length ≤ k → wfUnits l = true → wfUnits (l ++ [x]) = true := by
  intro k
  induction k with
  | zero => intro l hl _; have : l = [] := by cases l <;> simp_all
            subst this; simp [wfUnits, hx.1, hx.2]
  | succ k ihk =>
    intro l hl hw
    match l, hl, hw with
    | [], _, _ => simp [wfUnits, hx.1, hx.2]
    | [c], _, hw =>
      simp only [wfUnits, Bool.and_eq_true, Bool.not_eq_true'] at hw
      simp [wfUnits, hw.1, hw.2, hx.1, hx.2]
    | c :: n :: t', hl, hw =>
      by_cases hc : isHigh c = true
      · simp only [wfUnits, hc, if_true, Bool.and_eq_true] at hw
        have := ihk t' (by simp at hl; omega) hw.2
        cases t' with
        | nil => simp [wfUnits, hc, hw.1, hx.1, hx.2]
        | cons y t'' => simp only [List.cons_append] at this ⊢; simp [wfUnits, hc, hw.1, this]
      · have hc' : isHigh c = false := by simpa using hc
        simp only [wfUnits, hc', Bool.false_eq_true, if_false, Bool.and_eq_true] at hw
        have := ihk (n :: t') (by simp at hl ⊢; omega) hw.2
        simp only [List.cons_append] at this ⊢
        simp [wfUnits, hc', hw.1, this]

def asciiU (x : Nat) : Prop := 32 ≤ x ∧ x < 127

theorem ascii_ok (cd : Coder) (hg : Good cd) (x : Nat) (hx : asciiU x) : cd.ok x :=
  ⟨hg.ascii x hx.1 hx.2, hg.asciiBack x hx.1 hx.2⟩

theorem ascii_plain (x : Nat) (hx : asciiU x) : isHigh x = false ∧ isLow x = false := by
  have := hx; unfold asciiU at this; simp [isHigh, isLow]; omega

theorem nameOK_cons (cd : Coder) (hg : Good cd) (x : Nat) (l : List Nat) (hx : asciiU x) (h : NameOK cd l) :
    NameOK cd (x :: l) :=
  ⟨fun u hu => by rcases List.mem_cons.1 hu with rfl | hm; exact ascii_ok cd hg _ hx; exact h.1 u hm,
   fun hp => by rw [wf_cons_plain (ascii_plain x hx).1]; simp [(ascii_plain x hx).2, h.2 hp]⟩

theorem nameOK_snoc (cd : Coder) (hg : Good cd) (x : Nat) (l : List Nat) (hx : asciiU x) (h : NameOK cd l) :
    NameOK cd (l ++ [x]) :=
  ⟨fun u hu => by rcases List.mem_append.1 hu with hm | hm; exact h.1 u hm; simp at hm; subst hm; exact ascii_ok cd hg _ hx,
   fun hp => wf_snoc_plain x (ascii_plain x hx) _ l (Nat.le_refl _) (h.2 hp)⟩

theorem nameOK_lt (cd : Coder) (l : List Nat) (h : ∀ u ∈ l, u < 65536) (x : Nat) (hx : asciiU x) :
    (∀ u ∈ x :: l, u < 65536) ∧ (∀ u ∈ l ++ [x], u < 65536) := by
  unfold asciiU at hx
  constructor
  · intro u hu; rcases List.mem_cons.1 hu with rfl | hm; omega; exact h u hm
  · intro u hu; rcases List.mem_append.1 hu with hm | hm; exact h u hm; simp at hm; omega

end XV.Lemmas.Serializer
