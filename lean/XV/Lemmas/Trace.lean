/-
Helper lemmas for C17 (trace checker soundness/completeness, lockset ⇒ happens-before).
-/
import XV.Spec.Trace
namespace XV.Lemmas.Trace
open XV.Spec.Trace

/-! ### `Holds` one step at a time -/

theorem holds_zero (tr : List Event) (t : Thread) (m : Mutex) : ¬ Holds tr t m 0 := by
  rintro ⟨a, ha, _⟩; omega

theorem holds_succ (tr : List Event) (t : Thread) (m : Mutex) (k : Nat) :
    Holds tr t m (k + 1) ↔ tr[k]? = some (.acq t m) ∨ (Holds tr t m k ∧ tr[k]? ≠ some (.rel t m)) := by
  constructor
  · rintro ⟨a, ha, hacq, hno⟩
    by_cases h : a = k
    · subst h; exact Or.inl hacq
    · refine Or.inr ⟨⟨a, by omega, hacq, fun b h1 h2 => hno b h1 (by omega)⟩, hno k (by omega) (by omega)⟩
  · rintro (h | ⟨⟨a, ha, hacq, hno⟩, hk⟩)
    · exact ⟨k, by omega, h, fun b h1 h2 => by omega⟩
    · refine ⟨a, by omega, hacq, fun b h1 h2 => ?_⟩
      by_cases hb : b = k
      · subst hb; exact hk
      · exact hno b h1 (by omega)

/-- Mutual exclusion: in a well-formed trace two threads never hold the same mutex at the same point. -/
theorem holds_unique {tr : List Event} (hw : WellFormedLocks tr) {t t' : Thread} {m : Mutex} {k : Nat}
    (h : Holds tr t m k) (h' : Holds tr t' m k) : t = t' := by
  obtain ⟨a, ha, hacq, hno⟩ := h
  obtain ⟨a', ha', hacq', hno'⟩ := h'
  rcases Nat.lt_trichotomy a a' with hlt | heq | hgt
  · exact absurd ⟨a, hlt, hacq, fun b h1 h2 => hno b h1 (by omega)⟩ (hw.2 a' t' m hacq' t)
  · subst heq; rw [hacq] at hacq'; cases hacq'; rfl
  · exact absurd ⟨a', hgt, hacq', fun b h1 h2 => hno' b h1 (by omega)⟩ (hw.2 a t m hacq t')

/-! ### The checker state is exactly the `Holds` relation -/

/-- state invariant of `run` after the first `k` events of `tr` -/
def Inv (tr : List Event) (k : Nat) (h : Held) : Prop :=
  ∀ m t, (m, t) ∈ h ↔ Holds tr t m k

theorem inv_zero (tr : List Event) : Inv tr 0 [] := by
  intro m t; simp [holds_zero]

theorem inv_step {tr : List Event} {k : Nat} {h : Held} {e : Event} (hi : Inv tr k h) (he : tr[k]? = some e) :
    Inv tr (k + 1) (stepHeld h e) := by
  intro m t
  rw [holds_succ, he, ← hi m t]
  cases e with
  | acq t' m' =>
    simp only [stepHeld, List.mem_cons, Prod.mk.injEq, Option.some.injEq, Event.acq.injEq, ne_eq,
      reduceCtorEq, not_false_eq_true, and_true]
    constructor
    · rintro (⟨rfl, rfl⟩ | h) <;> simp [*]
    · rintro (⟨rfl, rfl⟩ | h) <;> simp [*]
  | rel t' m' =>
    simp only [stepHeld, List.mem_filter, ne_eq, Prod.mk.injEq, decide_eq_true_eq, Option.some.injEq,
      reduceCtorEq, false_or, Event.rel.injEq]
    constructor
    · rintro ⟨h1, h2⟩; exact ⟨h1, fun ⟨a, b⟩ => h2 ⟨b.symm, a.symm⟩⟩
    · rintro ⟨h1, h2⟩; exact ⟨h1, fun ⟨a, b⟩ => h2 ⟨b.symm, a.symm⟩⟩
  | acc _ _ _ => simp [stepHeld]
  | initBegin _ _ => simp [stepHeld]
  | initEnd _ _ => simp [stepHeld]

/-- what the declarative spec demands at one position -/
def OkAt (g : Resource → Mutex) (sg : Site → Mutex) (tr : List Event) (k : Nat) : Prop :=
  (∀ t m, tr[k]? = some (.rel t m) → Holds tr t m k) ∧
  (∀ t m, tr[k]? = some (.acq t m) → ∀ t', ¬ Holds tr t' m k) ∧
  (∀ t m, (tr[k]?).bind (need g sg) = some (t, m) → Holds tr t m k)

theorem spec_iff_okAt (g : Resource → Mutex) (sg : Site → Mutex) (tr : List Event) :
    (WellFormedLocks tr ∧ LocksetOK g sg tr) ↔ ∀ k, OkAt g sg tr k := by
  constructor
  · rintro ⟨⟨h1, h2⟩, h3⟩ k; exact ⟨h1 k, h2 k, h3 k⟩
  · intro h; exact ⟨⟨fun k => (h k).1, fun k => (h k).2.1⟩, fun k => (h k).2.2⟩

theorem checkEvent_none_iff (g : Resource → Mutex) (sg : Site → Mutex) {tr : List Event} {k : Nat} {h : Held}
    {e : Event} (hi : Inv tr k h) (he : tr[k]? = some e) (k' : Nat) :
    checkEvent g sg h k' e = none ↔ OkAt g sg tr k := by
  unfold OkAt
  rw [he]
  cases e with
  | acq t m =>
    simp only [checkEvent, List.all_eq_true, decide_eq_true_eq, ne_eq, Option.some.injEq, reduceCtorEq,
      false_imp_iff, implies_true, true_and, Event.acq.injEq, Option.bind_some, need, and_true]
    constructor
    · intro hh
      split at hh
      · rename_i hall
        rintro t' m' ⟨rfl, rfl⟩ t'' hholds
        exact hall (m, t'') ((hi m t'').2 hholds) rfl
      · cases hh
    · intro hh
      have : ∀ p ∈ h, ¬ p.1 = m := by
        rintro ⟨m', t'⟩ hp heq
        simp only at heq; subst heq
        exact hh t m' ⟨rfl, rfl⟩ t' ((hi m' t').1 hp)
      have h2 : ∀ x, ¬ (m, x) ∈ h := fun x hx => this _ hx rfl
      simp [h2]
  | rel t m =>
    simp only [checkEvent, Option.some.injEq, Event.rel.injEq, reduceCtorEq, false_imp_iff, implies_true,
      Option.bind_some, need, and_true]
    constructor
    · intro hh
      split at hh
      · rename_i hm
        rintro t' m' ⟨rfl, rfl⟩
        exact (hi m t).1 hm
      · cases hh
    · intro hh
      have := (hi m t).2 (hh t m ⟨rfl, rfl⟩)
      simp [this]
  | acc t r w =>
    simp only [checkEvent, Option.some.injEq, reduceCtorEq, false_imp_iff, implies_true, true_and,
      Option.bind_some, need, Prod.mk.injEq]
    constructor
    · intro hh
      split at hh
      · rename_i hm
        rintro t' m' ⟨rfl, rfl⟩
        exact (hi _ _).1 hm
      · cases hh
    · intro hh
      have := (hi _ _).2 (hh t (g r) ⟨rfl, rfl⟩)
      simp [this]
  | initBegin t s =>
    simp only [checkEvent, Option.some.injEq, reduceCtorEq, false_imp_iff, implies_true, true_and,
      Option.bind_some, need, Prod.mk.injEq]
    constructor
    · intro hh
      split at hh
      · rename_i hm
        rintro t' m' ⟨rfl, rfl⟩
        exact (hi _ _).1 hm
      · cases hh
    · intro hh
      have := (hi _ _).2 (hh t (sg s) ⟨rfl, rfl⟩)
      simp [this]
  | initEnd t s =>
    simp only [checkEvent, Option.some.injEq, reduceCtorEq, false_imp_iff, implies_true, true_and,
      Option.bind_some, need, Prod.mk.injEq]
    constructor
    · intro hh
      split at hh
      · rename_i hm
        rintro t' m' ⟨rfl, rfl⟩
        exact (hi _ _).1 hm
      · cases hh
    · intro hh
      have := (hi _ _).2 (hh t (sg s) ⟨rfl, rfl⟩)
      simp [this]

theorem okAt_beyond (g : Resource → Mutex) (sg : Site → Mutex) (tr : List Event) (k : Nat) (hk : tr.length ≤ k) :
    OkAt g sg tr k := by
  have : tr[k]? = none := List.getElem?_eq_none hk
  unfold OkAt; rw [this]; simp

theorem run_ok_iff (g : Resource → Mutex) (sg : Site → Mutex) (tr : List Event) :
    ∀ (post : List Event) (pre : List Event) (h : Held), tr = pre ++ post → Inv tr pre.length h →
      (run g sg h pre.length post = .ok () ↔ ∀ k, pre.length ≤ k → OkAt g sg tr k) := by
  intro post
  induction post with
  | nil =>
    intro pre h htr _
    simp only [run, true_iff]
    intro k hk
    exact okAt_beyond g sg tr k (by rw [htr]; simpa using hk)
  | cons e es ih =>
    intro pre h htr hi
    have he : tr[pre.length]? = some e := by rw [htr]; simp
    have hi' := inv_step hi he
    have hce := checkEvent_none_iff g sg hi he pre.length
    have ih' := ih (pre ++ [e]) (stepHeld h e) (by rw [htr]; simp) (by simpa using hi')
    simp only [List.length_append, List.length_singleton] at ih'
    simp only [run]
    cases hc : checkEvent g sg h pre.length e with
    | some v =>
      simp only [reduceCtorEq, false_iff]
      intro hall
      have := hce.2 (hall _ (Nat.le_refl _))
      rw [hc] at this; cases this
    | none =>
      simp only
      rw [ih']
      constructor
      · intro hh k hk
        by_cases hk' : k = pre.length
        · subst hk'; exact hce.1 hc
        · exact hh k (by omega)
      · intro hh k hk
        exact hh k (by omega)

theorem checkTrace_ok_iff (g : Resource → Mutex) (sg : Site → Mutex) (tr : List Event) :
    checkTrace g sg tr = .ok () ↔ WellFormedLocks tr ∧ LocksetOK g sg tr := by
  rw [spec_iff_okAt]
  have := run_ok_iff g sg tr tr [] [] (by simp) (inv_zero tr)
  simp only [List.length_nil, Nat.zero_le, true_imp_iff] at this
  exact this

/-! ### init-once checker -/

theorem runInit_ok_iff (tr : List Event) :
    ∀ (post pre : List Event) (done : List Site), tr = pre ++ post →
      (∀ s, s ∈ done ↔ ∃ i t, i < pre.length ∧ tr[i]? = some (.initEnd t s)) →
      (∀ i j t t' s, i < pre.length → j < pre.length → tr[i]? = some (.initEnd t s) →
          tr[j]? = some (.initEnd t' s) → i = j) →
      (runInit done pre.length post = .ok () ↔ InitOnce tr) := by
  intro post
  induction post with
  | nil =>
    intro pre done htr _ hpre
    simp only [runInit, true_iff]
    unfold InitOnce
    intro i j t t' s hi hj
    have hlen : tr.length = pre.length := by rw [htr]; simp
    have h1 : i < tr.length := by
      by_cases h : i < tr.length
      · exact h
      · rw [List.getElem?_eq_none (by omega)] at hi; cases hi
    have h2 : j < tr.length := by
      by_cases h : j < tr.length
      · exact h
      · rw [List.getElem?_eq_none (by omega)] at hj; cases hj
    exact hpre i j t t' s (by omega) (by omega) hi hj
  | cons e es ih =>
    intro pre done htr hdone hpre
    have he : tr[pre.length]? = some e := by rw [htr]; simp
    have hlen : (pre ++ [e]).length = pre.length + 1 := by simp
    by_cases hend : ∃ t s, e = .initEnd t s
    · obtain ⟨t, s, rfl⟩ := hend
      simp only [runInit]
      by_cases hs : s ∈ done
      · simp only [hs, if_true, reduceCtorEq, false_iff]
        intro hio
        unfold InitOnce at hio
        obtain ⟨i, t', hi, hi'⟩ := (hdone s).1 hs
        have := hio i pre.length t' t s hi' he
        omega
      · simp only [hs, if_false]
        have := ih (pre ++ [.initEnd t s]) (s :: done) (by rw [htr]; simp) ?_ ?_
        · rw [hlen] at this; exact this
        · intro s'
          rw [hlen]
          simp only [List.mem_cons]
          constructor
          · rintro (rfl | h)
            · exact ⟨pre.length, t, by omega, he⟩
            · obtain ⟨i, t', hi, hi'⟩ := (hdone s').1 h
              exact ⟨i, t', by omega, hi'⟩
          · rintro ⟨i, t', hi, hi'⟩
            by_cases hip : i = pre.length
            · subst hip; rw [he] at hi'; cases hi'; exact Or.inl rfl
            · exact Or.inr ((hdone s').2 ⟨i, t', by omega, hi'⟩)
        · rw [hlen]
          intro i j t1 t2 s' hi hj hi' hj'
          by_cases hip : i = pre.length <;> by_cases hjp : j = pre.length
          · omega
          · subst hip; rw [he] at hi'; cases hi'
            exact absurd ((hdone _).2 ⟨j, t2, by omega, hj'⟩) hs
          · subst hjp; rw [he] at hj'; cases hj'
            exact absurd ((hdone _).2 ⟨i, t1, by omega, hi'⟩) hs
          · exact hpre i j t1 t2 s' (by omega) (by omega) hi' hj'
    · have hrun : runInit done pre.length (e :: es) = runInit done (pre.length + 1) es := by
        cases e with
        | initEnd t s => exact absurd ⟨t, s, rfl⟩ hend
        | _ => simp [runInit]
      rw [hrun]
      have := ih (pre ++ [e]) done (by rw [htr]; simp) ?_ ?_
      · rw [hlen] at this; exact this
      · intro s'
        rw [hlen, hdone s']
        constructor
        · rintro ⟨i, t', hi, hi'⟩; exact ⟨i, t', by omega, hi'⟩
        · rintro ⟨i, t', hi, hi'⟩
          by_cases hip : i = pre.length
          · subst hip; rw [he] at hi'; cases hi'; exact absurd ⟨t', s', rfl⟩ hend
          · exact ⟨i, t', by omega, hi'⟩
      · rw [hlen]
        intro i j t1 t2 s' hi hj hi' hj'
        by_cases hip : i = pre.length
        · subst hip; rw [he] at hi'; cases hi'; exact absurd ⟨t1, s', rfl⟩ hend
        · by_cases hjp : j = pre.length
          · subst hjp; rw [he] at hj'; cases hj'; exact absurd ⟨t2, s', rfl⟩ hend
          · exact hpre i j t1 t2 s' (by omega) (by omega) hi' hj'

theorem checkInitOnce_ok_iff (tr : List Event) : checkInitOnce tr = .ok () ↔ InitOnce tr := by
  have := runInit_ok_iff tr tr [] [] (by simp) (by simp) (by simp)
  simpa [checkInitOnce] using this

/-! ### lockset discipline ⇒ every conflicting pair is ordered by happens-before -/

theorem drf_ordered {g : Resource → Mutex} {sg : Site → Mutex} {tr : List Event}
    (hw : WellFormedLocks tr) (hl : LocksetOK g sg tr) {i j : Nat} (hij : i < j)
    {t₁ t₂ : Thread} {r : Resource} {w₁ w₂ : Bool}
    (hi : tr[i]? = some (.acc t₁ r w₁)) (hj : tr[j]? = some (.acc t₂ r w₂)) (hne : t₁ ≠ t₂) :
    HB tr i j := by
  have h1 : Holds tr t₁ (g r) i := hl i t₁ (g r) (by rw [hi]; rfl)
  have h2 : Holds tr t₂ (g r) j := hl j t₂ (g r) (by rw [hj]; rfl)
  obtain ⟨a₂, ha₂, hacq₂, hno₂⟩ := h2
  rcases Nat.lt_trichotomy a₂ i with hlt | heq | hgt
  · -- t₂ would already hold the mutex at i
    have : Holds tr t₂ (g r) i := ⟨a₂, hlt, hacq₂, fun b hb1 hb2 => hno₂ b hb1 (by omega)⟩
    exact absurd (holds_unique hw h1 this) hne
  · subst heq; rw [hi] at hacq₂; cases hacq₂
  · -- t₁ released between i and a₂
    obtain ⟨a₁, ha₁, hacq₁, hno₁⟩ := h1
    have hfree := hw.2 a₂ t₂ (g r) hacq₂ t₁
    have : ∃ b, i < b ∧ b < a₂ ∧ tr[b]? = some (.rel t₁ (g r)) := by
      apply Classical.byContradiction
      intro hnone
      apply hfree
      refine ⟨a₁, by omega, hacq₁, fun b hb1 hb2 hb => ?_⟩
      by_cases hbi : b < i
      · exact hno₁ b hb1 hbi hb
      · by_cases hbe : b = i
        · subst hbe; rw [hi] at hb; cases hb
        · exact hnone ⟨b, by omega, hb2, hb⟩
    obtain ⟨b, hb1, hb2, hb⟩ := this
    exact .trans (.trans (.po hb1 hi hb rfl) (.sw hb2 hb hacq₂)) (.po ha₂ hacq₂ hj rfl)

end XV.Lemmas.Trace
