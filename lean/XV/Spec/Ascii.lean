/-
Spec of the US-ASCII encoding (ANSI X3.4 / ISO 646-US as used by XML's encoding="US-ASCII"):
the bytes 0x00..0x7F denote the code points of the same number; no other byte denotes anything.
Declarative and executable; no reference to the library's code.
-/
namespace XV.Spec.Ascii

/-- a byte is a legal US-ASCII code unit -/
def legal (b : Nat) : Prop := b < 0x80

instance (b : Nat) : Decidable (legal b) := inferInstanceAs (Decidable (b < 0x80))

/-- a byte string all of whose members are legal -/
def AllLegal (bs : List Nat) : Prop := ∀ b ∈ bs, legal b

/-- The reading of a byte string: the code points of the maximal legal prefix, and the offset of the
first illegal byte (`none` = the whole string is legal).  A conforming decoder delivers exactly the
first component when the second is `none`, and otherwise raises an error and delivers no more than the
first component (in particular nothing that lies behind the illegal byte). -/
def decode : List Nat → List Nat × Option Nat
  | [] => ([], none)
  | b :: rest =>
    if b < 0x80 then ((b :: (decode rest).1), (decode rest).2.map (· + 1))
    else ([], some 0)

/-- The encoding of a code-point string: defined only when every code point is below 0x80. -/
def encode (cs : List Nat) : Option (List Nat) :=
  if cs.all (· < 0x80) then some cs else none

theorem decode_legal : ∀ bs : List Nat, AllLegal bs → decode bs = (bs, none)
  | [], _ => rfl
  | b :: rest, h => by
    have hb : b < 0x80 := h b (by simp)
    have ih := decode_legal rest (fun x hx => h x (by simp [hx]))
    simp [decode, hb, ih]

theorem decode_illegal : ∀ (good : List Nat) (b : Nat) (rest : List Nat), AllLegal good → ¬ legal b →
    decode (good ++ b :: rest) = (good, some good.length)
  | [], b, rest, _, hb => by
    have : ¬ b < 0x80 := hb
    simp [decode, this]
  | g :: good, b, rest, h, hb => by
    have hg : g < 0x80 := h g (by simp)
    have ih := decode_illegal good b rest (fun x hx => h x (by simp [hx])) hb
    simp [decode, hg, ih]

/-- every byte string is of exactly one of the two shapes -/
theorem split (bs : List Nat) :
    AllLegal bs ∨ ∃ good b rest, bs = good ++ b :: rest ∧ AllLegal good ∧ ¬ legal b := by
  induction bs with
  | nil => left; intro b hb; cases hb
  | cons a t ih =>
    by_cases ha : legal a
    · rcases ih with h | ⟨good, b, rest, rfl, hg, hb⟩
      · left; intro x hx
        rcases List.mem_cons.mp hx with rfl | hx
        · exact ha
        · exact h x hx
      · right
        refine ⟨a :: good, b, rest, rfl, ?_, hb⟩
        intro x hx
        rcases List.mem_cons.mp hx with rfl | hx
        · exact ha
        · exact hg x hx
    · right; exact ⟨[], a, t, rfl, (fun _ h => by cases h), ha⟩

end XV.Spec.Ascii
