/-
Spec: Unicode 3.9, Table 3-6 (bit distribution) and Table 3-7 (well-formed byte sequences),
D91 (UTF-16).  Bytes and code points are `Nat`s; `isByte`/`isScalar` are explicit predicates.
-/
namespace XV.Spec.Utf8

def isScalar (n : Nat) : Prop := n < 0x110000 ∧ ¬ (0xD800 ≤ n ∧ n ≤ 0xDFFF)

instance (n : Nat) : Decidable (isScalar n) := by unfold isScalar; infer_instance

/-- Table 3-6: UTF-8 bit distribution. -/
def encode (n : Nat) : List Nat :=
  if n < 0x80 then [n]
  else if n < 0x800 then [0xC0 + n / 64, 0x80 + n % 64]
  else if n < 0x10000 then [0xE0 + n / 4096, 0x80 + n / 64 % 64, 0x80 + n % 64]
  else [0xF0 + n / 262144, 0x80 + n / 4096 % 64, 0x80 + n / 64 % 64, 0x80 + n % 64]

def cont (b : Nat) : Bool := 0x80 ≤ b && b ≤ 0xBF

/-- Table 3-7: well-formed UTF-8 byte sequences, row by row. -/
def wellFormed : List Nat → Bool
  | [b0] => b0 ≤ 0x7F
  | [b0, b1] => 0xC2 ≤ b0 && b0 ≤ 0xDF && cont b1
  | [b0, b1, b2] =>
      ((b0 == 0xE0 && 0xA0 ≤ b1 && b1 ≤ 0xBF)
       || (0xE1 ≤ b0 && b0 ≤ 0xEC && cont b1)
       || (b0 == 0xED && 0x80 ≤ b1 && b1 ≤ 0x9F)
       || (0xEE ≤ b0 && b0 ≤ 0xEF && cont b1)) && cont b2
  | [b0, b1, b2, b3] =>
      ((b0 == 0xF0 && 0x90 ≤ b1 && b1 ≤ 0xBF)
       || (0xF1 ≤ b0 && b0 ≤ 0xF3 && cont b1)
       || (b0 == 0xF4 && 0x80 ≤ b1 && b1 ≤ 0x8F)) && cont b2 && cont b3
  | _ => false

/-- The code point a well-formed sequence denotes (Table 3-6 read right to left). -/
def value : List Nat → Nat
  | [b0] => b0
  | [b0, b1] => (b0 - 0xC0) * 64 + (b1 - 0x80)
  | [b0, b1, b2] => (b0 - 0xE0) * 4096 + (b1 - 0x80) * 64 + (b2 - 0x80)
  | [b0, b1, b2, b3] => (b0 - 0xF0) * 262144 + (b1 - 0x80) * 4096 + (b2 - 0x80) * 64 + (b3 - 0x80)
  | _ => 0

/-- D91: UTF-16 encoding form. -/
def utf16 (n : Nat) : List Nat :=
  if n < 0x10000 then [n] else [0xD800 + (n - 0x10000) / 1024, 0xDC00 + (n - 0x10000) % 1024]

def Scalars (ss : List Nat) : Prop := ∀ s ∈ ss, isScalar s
/-- UTF-8 encoding of a string of scalar values. -/
def encodeAll (ss : List Nat) : List Nat := ss.flatMap encode
/-- UTF-16 encoding of a string of scalar values. -/
def utf16All (ss : List Nat) : List Nat := ss.flatMap utf16

/-! Executable reference decoder (used as the oracle when searching for a failing input). -/
inductive Status
  | done
  | illformed (off : Nat)
  | truncated (off : Nat)
  deriving DecidableEq, Repr

/-- length of the sequence a lead byte announces according to Table 3-7 -/
def seqLen (b0 : Nat) : Option Nat :=
  if b0 ≤ 0x7F then some 1 else if 0xC2 ≤ b0 ∧ b0 ≤ 0xDF then some 2
  else if 0xE0 ≤ b0 ∧ b0 ≤ 0xEF then some 3 else if 0xF0 ≤ b0 ∧ b0 ≤ 0xF4 then some 4 else none

def specDecode : Nat → List Nat → Nat → List Nat → List Nat × Status
  | 0, _, _, acc => (acc, .done)
  | _ + 1, [], _, acc => (acc, .done)
  | fuel + 1, b0 :: rest, off, acc =>
    match seqLen b0 with
    | none => (acc, .illformed off)
    | some n =>
      let w := (b0 :: rest).take n
      if w.length < n then
        -- a proper prefix of some well-formed sequence?  (only then is it mere truncation)
        (acc, .truncated off)
      else if wellFormed w then specDecode fuel ((b0 :: rest).drop n) (off + n) (acc ++ [value w])
      else (acc, .illformed off)

def decodeAll (bs : List Nat) : List Nat × Status := specDecode (bs.length + 1) bs 0 []

end XV.Spec.Utf8
