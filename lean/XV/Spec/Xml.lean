/- Interface of the XML reference processor: `Doc`, `render`, `WF`, `nsDoc`, `parseSyn`, `parse`. -/
import XV.Spec.Xml.Doc
import XV.Spec.Xml.Render
import XV.Spec.Xml.Lex
import XV.Spec.Xml.Dtd
import XV.Spec.Xml.Parse
import XV.Spec.Xml.WF
import XV.Spec.Xml.Ns
