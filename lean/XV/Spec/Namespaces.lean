/-
Spec: namespace scoping (Namespaces in XML 1.0, section 6.1/6.2).  The scope of a declaration is the element it
is on and that element's content, *unless overridden by another declaration of the same prefix*: to resolve a
prefix (the empty prefix = the default namespace) one looks at the declarations of the element itself, then of
its parent, … and the FIRST one found — the innermost — decides.  Definitions only; no Mathlib.
-/
namespace XV.Spec.Namespaces

abbrev Name := List Nat
/-- the declarations one start tag carries: prefix ↦ namespace name -/
abbrev Scope := List (Name × Name)

def scopeGet (s : Scope) (p : Name) : Option Name :=
  match s with
  | [] => none
  | (q, u) :: t => if q = p then some u else scopeGet t p

/-- `stack`: the declarations of the element itself first, then its parent's, … -/
def resolve : List Scope → Name → Option Name
  | [], _ => none
  | s :: rest, p => match scopeGet s p with
    | some u => some u
    | none => resolve rest p

end XV.Spec.Namespaces
