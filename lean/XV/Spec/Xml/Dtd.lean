/- Reference recogniser for `<!DOCTYPE … [ internal subset ]>`: XML 1.0 §2.8, §3.2–§3.3, §4.2, §4.7.
   No parameter-entity references, no conditional sections, no external subset: those answer `unsupported`
   (never a default verdict).  `parseDoctype` is called with the text after `<!DOCTYPE`. -/
import XV.Spec.Xml.Lex
namespace XV.Spec.Xml
open XV.Spec.XmlChar

abbrev fatal {α : Type} (why : String) : Except Err α := .error (.fatal why)
abbrev unsupported {α : Type} (why : String) : Except Err α := .error (.unsupported why)

/-- S, required -/
def reqS (s : Str) : Option (Str × Str) :=
  if (spanP isSC s).1 = [] then none else some ((spanP isSC s).1, (spanP isSC s).2)

/-- text of `s` that was consumed to reach the suffix `rest` -/
def consumed (s rest : Str) : Str := s.take (s.length - rest.length)

def occurrenceOpt : Str → Str
  | c :: t => if c = '?' || c = '*' || c = '+' then t else c :: t
  | [] => []

/-- [48]-[50] after '(' : S? cp (S? sep S? cp)* S? ')' with one kind of separator; returns the text after ')' -/
def cpGroup : Nat → Str → Except Err Str
  | 0, _ => fatal "content model: too deep"
  | fuel + 1, s =>
    let rec items (k : Nat) (sep : Option Char) (s : Str) : Except Err Str :=
      match k with
      | 0 => fatal "content model: too long"
      | k + 1 =>
        -- one cp
        let s1 := (spanP isSC s).2
        let afterCp : Except Err Str :=
          match s1 with
          | [] => fatal "content model: end of input"
          | c :: t =>
            if c = '%' then unsupported "parameter-entity reference in content model"
            else if c = '(' then (cpGroup fuel t).map occurrenceOpt
            else match parseName s1 with
              | none => fatal "content model: name or '(' expected"
              | some (_, r) => .ok (occurrenceOpt r)
        match afterCp with
        | .error e => .error e
        | .ok r =>
          match (spanP isSC r).2 with
          | [] => fatal "content model: end of input"
          | c :: t =>
            if c = ')' then .ok t
            else if c = '%' then unsupported "parameter-entity reference in content model"
            else if (c = ',' || c = '|') && (sep = none || sep = some c) then items k (some c) t
            else fatal "content model: ',' '|' or ')' expected"
    items (s.length + 1) none s

/-- [51] after '(' S? '#PCDATA' : (S? '|' S? Name)* S? ')*'  or  S? ')' ; returns the text after it -/
def mixedTail : Nat → Bool → Str → Except Err Str
  | 0, _, _ => fatal "mixed content: too long"
  | fuel + 1, any, s =>
    match (spanP isSC s).2 with
    | [] => fatal "mixed content: end of input"
    | c :: t =>
      if c = ')' then
        match t with
        | '*' :: t' => .ok t'
        | _ => if any then fatal "mixed content with names must end with ')*'" else .ok t
      else if c = '%' then unsupported "parameter-entity reference in mixed content"
      else if c = '|' then
        match parseName (spanP isSC t).2 with
        | none => if ((spanP isSC t).2).head? = some '%' then unsupported "parameter-entity reference in mixed content"
                  else fatal "mixed content: name expected"
        | some (_, r) => mixedTail fuel true r
      else fatal "mixed content: '|' or ')' expected"

/-- [46] contentspec ::= 'EMPTY' | 'ANY' | Mixed | children ; returns (text of the spec, rest) -/
def scanContentSpec (s : Str) : Except Err (Str × Str) :=
  let done (r : Except Err Str) : Except Err (Str × Str) := r.map (fun rest => (consumed s rest, rest))
  match stripPrefix ['E', 'M', 'P', 'T', 'Y'] s with
  | some r => .ok (['E', 'M', 'P', 'T', 'Y'], r)
  | none =>
    match stripPrefix ['A', 'N', 'Y'] s with
    | some r => .ok (['A', 'N', 'Y'], r)
    | none =>
      match s with
      | '(' :: t =>
        match stripPrefix ['#', 'P', 'C', 'D', 'A', 'T', 'A'] (spanP isSC t).2 with
        | some r => done (mixedTail (r.length + 1) false r)
        | none => done ((cpGroup (t.length + 1) t).map occurrenceOpt)
      | '%' :: _ => unsupported "parameter-entity reference as content specification"
      | _ => fatal "content specification expected"

def isNmtoken (s : Str) : Bool := !s.isEmpty && s.all isNameCharC

/-- after '(' : S? tok (S? '|' S? tok)* S? ')' ; `names` = tokens must be Names (NOTATION) else Nmtokens -/
def enumTail (names : Bool) : Nat → Str → Except Err Str
  | 0, _ => fatal "enumeration: too long"
  | fuel + 1, s =>
    let s1 := (spanP isSC s).2
    let tok := (spanP isNameCharC s1).1
    let r := (spanP isNameCharC s1).2
    if s1.head? = some '%' then unsupported "parameter-entity reference in enumeration"
    else if tok = [] || (names && !isName tok) then fatal "enumeration: token expected"
    else
      match (spanP isSC r).2 with
      | [] => fatal "enumeration: end of input"
      | c :: t =>
        if c = ')' then .ok t
        else if c = '|' then enumTail names fuel t
        else if c = '%' then unsupported "parameter-entity reference in enumeration"
        else fatal "enumeration: '|' or ')' expected"

def attTypeKeywords : List Str :=
  [['C','D','A','T','A'], ['I','D'], ['I','D','R','E','F'], ['I','D','R','E','F','S'], ['E','N','T','I','T','Y'],
   ['E','N','T','I','T','I','E','S'], ['N','M','T','O','K','E','N'], ['N','M','T','O','K','E','N','S']]

/-- [54] AttType ; returns (text, rest) -/
def scanAttType (s : Str) : Except Err (Str × Str) :=
  let done (r : Except Err Str) : Except Err (Str × Str) := r.map (fun rest => (consumed s rest, rest))
  match s with
  | '(' :: t => done (enumTail false (t.length + 1) t)
  | '%' :: _ => unsupported "parameter-entity reference as attribute type"
  | _ =>
    match parseName s with
    | none => fatal "attribute type expected"
    | some (n, r) =>
      if attTypeKeywords.contains n then .ok (n, r)
      else if n = ['N','O','T','A','T','I','O','N'] then
        match reqS r with
        | none => fatal "NOTATION: white space expected"
        | some (_, r1) =>
          match r1 with
          | '(' :: t => done (enumTail true (t.length + 1) t)
          | _ => fatal "NOTATION: '(' expected"
      else fatal "unknown attribute type"

/-- quoted literal without references: text up to the closing quote -/
def scanQuoted (s : Str) : Option (Quote × Str × Str) :=
  match parseQuote s with
  | none => none
  | some (q, r) =>
    match (spanP (· != q.char) r).2 with
    | [] => none
    | _ :: r' => some (q, (spanP (· != q.char) r).1, r')

/-- [13] PubidChar -/
def isPubidC (c : Char) : Bool :=
  c == ' ' || c == '\r' || c == '\n' || isAlphaC c || isDigitC c || "-'()+,./:=?;!*#@$_%".toList.contains c

/-- [75] ExternalID, or (for NOTATION) [83] PublicID when `allowPublicOnly` -/
def parseExternalID (allowPublicOnly : Bool) (s : Str) : Except Err (Option ExternalID × Str × Str) :=
  -- result: (structured id if it has a system literal, raw text, rest)
  match stripPrefix ['S','Y','S','T','E','M'] s with
  | some r =>
    match reqS r with
    | none => fatal "SYSTEM: white space expected"
    | some (s1, r1) =>
      match scanQuoted r1 with
      | none => fatal "SYSTEM: quoted literal expected"
      | some (q, lit, r2) => .ok (some (.system s1 q lit), consumed s r2, r2)
  | none =>
    match stripPrefix ['P','U','B','L','I','C'] s with
    | none => fatal "SYSTEM or PUBLIC expected"
    | some r =>
      match reqS r with
      | none => fatal "PUBLIC: white space expected"
      | some (s1, r1) =>
        match scanQuoted r1 with
        | none => fatal "PUBLIC: quoted literal expected"
        | some (q1, pub, r2) =>
          if !pub.all isPubidC then fatal "PUBLIC: illegal character in public identifier" else
          match reqS r2 with
          | none => if allowPublicOnly then .ok (none, consumed s r2, r2) else fatal "PUBLIC: system literal expected"
          | some (s2, r3) =>
            match scanQuoted r3 with
            | none => if allowPublicOnly then .ok (none, consumed s r2, r2) else fatal "PUBLIC: system literal expected"
            | some (q2, sys, r4) => .ok (some (.public_ s1 q1 pub s2 q2 sys), consumed s r4, r4)

/-- S? '>' -/
def declEndGt (s : Str) : Option (Str × Str) :=
  match (spanP isSC s).2 with
  | '>' :: r => some ((spanP isSC s).1, r)
  | _ => none

/-- after '<!ELEMENT' -/
def parseElementDecl (s : Str) : Res Decl :=
  match reqS s with
  | none => fatal "ELEMENT: white space expected"
  | some (s1, r1) =>
    match parseName r1 with
    | none => if r1.head? = some '%' then unsupported "parameter-entity reference" else fatal "ELEMENT: name expected"
    | some (n, r2) =>
      match reqS r2 with
      | none => fatal "ELEMENT: white space expected after the name"
      | some (s2, r3) =>
        match scanContentSpec r3 with
        | .error e => .error e
        | .ok (spec, r4) =>
          match declEndGt r4 with
          | none => if ((spanP isSC r4).2).head? = some '%' then unsupported "parameter-entity reference" else fatal "ELEMENT: '>' expected"
          | some (s3, r5) => .ok (.element s1 n s2 spec s3, r5)

/-- [60] DefaultDecl -/
def parseDefault (s : Str) : Except Err ((Str × Option (Quote × List AttPiece)) × Str) :=
  match stripPrefix ['#','R','E','Q','U','I','R','E','D'] s with
  | some r => .ok ((['#','R','E','Q','U','I','R','E','D'], none), r)
  | none =>
    match stripPrefix ['#','I','M','P','L','I','E','D'] s with
    | some r => .ok ((['#','I','M','P','L','I','E','D'], none), r)
    | none =>
      let lit (kw : Str) (r : Str) : Except Err ((Str × Option (Quote × List AttPiece)) × Str) :=
        match parseQuote r with
        | none => if r.head? = some '%' then unsupported "parameter-entity reference" else fatal "default value: quoted literal expected"
        | some (q, r1) =>
          match parsePieces q r1.length r1 with
          | .error e => .error e
          | .ok (ps, r2) => .ok ((kw, some (q, ps)), r2)
      match stripPrefix ['#','F','I','X','E','D'] s with
      | some r =>
        match reqS r with
        | none => fatal "#FIXED: white space expected"
        | some (w, r1) => lit (['#','F','I','X','E','D'] ++ w) r1
      | none => lit [] s

/-- AttDef* S? '>' -/
def parseAttDefs : Nat → Str → Except Err ((List AttDef × Str) × Str)
  | 0, _ => fatal "ATTLIST: too long"
  | fuel + 1, s =>
    match (spanP isSC s).2 with
    | [] => fatal "ATTLIST: end of input"
    | c :: t =>
      if c = '>' then .ok (([], (spanP isSC s).1), t)
      else if c = '%' then unsupported "parameter-entity reference in ATTLIST"
      else if (spanP isSC s).1 = [] then fatal "ATTLIST: white space expected"
      else
        match parseName (c :: t) with
        | none => fatal "ATTLIST: attribute name expected"
        | some (n, r1) =>
          match reqS r1 with
          | none => fatal "ATTLIST: white space expected after attribute name"
          | some (s1, r2) =>
            match scanAttType r2 with
            | .error e => .error e
            | .ok (ty, r3) =>
              match reqS r3 with
              | none => fatal "ATTLIST: white space expected after attribute type"
              | some (s2, r4) =>
                match parseDefault r4 with
                | .error e => .error e
                | .ok ((kw, dv), r5) =>
                  match parseAttDefs fuel r5 with
                  | .error e => .error e
                  | .ok ((ds, w), r6) => .ok ((⟨(spanP isSC s).1, n, s1, ty, s2, kw, dv⟩ :: ds, w), r6)

/-- after '<!ATTLIST' -/
def parseAttlistDecl (s : Str) : Res Decl :=
  match reqS s with
  | none => fatal "ATTLIST: white space expected"
  | some (s1, r1) =>
    match parseName r1 with
    | none => if r1.head? = some '%' then unsupported "parameter-entity reference" else fatal "ATTLIST: element name expected"
    | some (n, r2) =>
      match parseAttDefs (r2.length + 1) r2 with
      | .error e => .error e
      | .ok ((ds, w), r3) => .ok (.attlist s1 n ds w, r3)

/-- after '<!ENTITY' -/
def parseEntityDecl (s : Str) : Res Decl :=
  match reqS s with
  | none => fatal "ENTITY: white space expected"
  | some (s1, r1) =>
    match parseName r1 with
    | none => if r1.head? = some '%' then unsupported "parameter-entity declaration" else fatal "ENTITY: name expected"
    | some (n, r2) =>
      match reqS r2 with
      | none => fatal "ENTITY: white space expected after the name"
      | some (s2, r3) =>
        match parseQuote r3 with
        | some (q, r4) =>
          match parsePieces q r4.length r4 with
          | .error e => .error e
          | .ok (ps, r5) =>
            if ps.contains (.ch '%') then unsupported "parameter-entity reference in entity value" else
            match declEndGt r5 with
            | none => fatal "ENTITY: '>' expected"
            | some (s3, r6) => .ok (.entity s1 n s2 (.internal q ps) s3, r6)
        | none =>
          match parseExternalID false r3 with
          | .error e => .error e
          | .ok (none, _, _) => fatal "ENTITY: external identifier expected"
          | .ok (some id, _, r4) =>
            -- optional NDATA
            match reqS r4 with
            | some (w1, r5) =>
              match stripPrefix ['N','D','A','T','A'] r5 with
              | some r6 =>
                match reqS r6 with
                | none => fatal "NDATA: white space expected"
                | some (w2, r7) =>
                  match parseName r7 with
                  | none => fatal "NDATA: notation name expected"
                  | some (nn, r8) =>
                    match declEndGt r8 with
                    | none => fatal "ENTITY: '>' expected"
                    | some (s3, r9) => .ok (.entity s1 n s2 (.external_ id (some (w1, w2, nn))) s3, r9)
              | none =>
                match declEndGt r4 with
                | none => fatal "ENTITY: '>' expected"
                | some (s3, r6) => .ok (.entity s1 n s2 (.external_ id none) s3, r6)
            | none =>
              match declEndGt r4 with
              | none => fatal "ENTITY: '>' expected"
              | some (s3, r6) => .ok (.entity s1 n s2 (.external_ id none) s3, r6)

/-- after '<!NOTATION' -/
def parseNotationDecl (s : Str) : Res Decl :=
  match reqS s with
  | none => fatal "NOTATION: white space expected"
  | some (s1, r1) =>
    match parseName r1 with
    | none => if r1.head? = some '%' then unsupported "parameter-entity reference" else fatal "NOTATION: name expected"
    | some (n, r2) =>
      match reqS r2 with
      | none => fatal "NOTATION: white space expected after the name"
      | some (s2, r3) =>
        match parseExternalID true r3 with
        | .error e => .error e
        | .ok (_, raw, r4) =>
          match declEndGt r4 with
          | none => fatal "NOTATION: '>' expected"
          | some (s3, r5) => .ok (.notation_ s1 n s2 raw s3, r5)

/-- one item of the internal subset; the input does not start with ']' -/
def parseDecl (s : Str) : Res Decl :=
  match s with
  | [] => fatal "internal subset: end of input"
  | c :: t =>
    if isSC c then .ok (.ws c, t)
    else if c = '%' then unsupported "parameter-entity reference in the internal subset"
    else if c = '<' then
      match t with
      | '?' :: t' =>
        match parsePI t' with
        | .error e => .error e
        | .ok ((n, sp, d), r) => .ok (.pi n sp d, r)
      | '!' :: t' =>
        match stripPrefix ['-', '-'] t' with
        | some r =>
          match parseComment r with
          | .error e => .error e
          | .ok (b, r') => .ok (.comment b, r')
        | none =>
          match stripPrefix ['E','L','E','M','E','N','T'] t' with
          | some r => parseElementDecl r
          | none =>
            match stripPrefix ['A','T','T','L','I','S','T'] t' with
            | some r => parseAttlistDecl r
            | none =>
              match stripPrefix ['E','N','T','I','T','Y'] t' with
              | some r => parseEntityDecl r
              | none =>
                match stripPrefix ['N','O','T','A','T','I','O','N'] t' with
                | some r => parseNotationDecl r
                | none => fatal "internal subset: unknown markup declaration"
      | _ => fatal "internal subset: markup declaration expected"
    else fatal "internal subset: markup declaration, white space or ']' expected"

def parseDecls : Nat → Str → Except Err (List Decl × Str)
  | 0, _ => fatal "internal subset: too long"
  | _ + 1, [] => fatal "internal subset: ']' expected"
  | fuel + 1, c :: t =>
    if c = ']' then .ok ([], t)
    else
      match parseDecl (c :: t) with
      | .error e => .error e
      | .ok (d, r) =>
        match parseDecls fuel r with
        | .error e => .error e
        | .ok (ds, r') => .ok (d :: ds, r')

/-- after '<!DOCTYPE' : S Name S? ('[' intSubset ']' S?)? '>' -/
def parseDoctype (s : Str) : Res Doctype :=
  match reqS s with
  | none => fatal "DOCTYPE: white space expected"
  | some (s1, r1) =>
    match parseName r1 with
    | none => fatal "DOCTYPE: name expected"
    | some (n, r2) =>
      match (spanP isSC r2).2 with
      | [] => fatal "DOCTYPE: end of input"
      | c :: t =>
        if c = '>' then .ok (⟨s1, n, (spanP isSC r2).1, none⟩, t)
        else if c = '[' then
          match parseDecls (t.length + 1) t with
          | .error e => .error e
          | .ok (ds, r3) =>
            match declEndGt r3 with
            | none => fatal "DOCTYPE: '>' expected"
            | some (s3, r4) => .ok (⟨s1, n, (spanP isSC r2).1, some (ds, s3)⟩, r4)
        else if (stripPrefix ['S','Y','S','T','E','M'] (c :: t)).isSome || (stripPrefix ['P','U','B','L','I','C'] (c :: t)).isSome then
          unsupported "DOCTYPE with an external identifier"
        else fatal "DOCTYPE: '[' or '>' expected"

end XV.Spec.Xml
