/- The printer: `render : Doc → List Char`, total and simple.  Also the token view of a document. -/
import XV.Spec.Xml.Doc
namespace XV.Spec.Xml

def renderCharRef (r : CharRef) : Str :=
  ['&', '#'] ++ (if r.hex then ['x'] else []) ++ r.digits ++ [';']

def renderEntRef (n : Str) : Str := '&' :: n ++ [';']

def renderPiece : AttPiece → Str
  | .ch c => [c]
  | .cref r => renderCharRef r
  | .eref n => renderEntRef n

def renderPieces : List AttPiece → Str
  | [] => []
  | p :: ps => renderPiece p ++ renderPieces ps

def renderEq (e : EqS) : Str := e.pre ++ '=' :: e.post

def renderQuoted (q : Quote) (body : Str) : Str := q.char :: body ++ [q.char]

def renderAttr (a : Attr) : Str :=
  a.pre ++ a.name ++ renderEq a.eq ++ renderQuoted a.q (renderPieces a.val)

def renderAttrs : List Attr → Str
  | [] => []
  | a :: as => renderAttr a ++ renderAttrs as

def renderLeaf : Leaf → Str
  | .ch c => [c]
  | .cref r => renderCharRef r
  | .eref n => renderEntRef n
  | .cdata s => ['<', '!', '[', 'C', 'D', 'A', 'T', 'A', '['] ++ s ++ [']', ']', '>']
  | .comment s => ['<', '!', '-', '-'] ++ s ++ ['-', '-', '>']
  | .pi t sp d => '<' :: '?' :: t ++ sp ++ d ++ ['?', '>']

def renderLeaves : List Leaf → Str
  | [] => []
  | l :: ls => renderLeaf l ++ renderLeaves ls

/-- '<' Name (S Attribute)* S? -/
def renderTagOpen (t : Tag) : Str := '<' :: t.name ++ renderAttrs t.atts ++ t.ws

def renderETag (name ws : Str) : Str := '<' :: '/' :: name ++ ws ++ ['>']

/-! DOCTYPE -/

def renderExternalID : ExternalID → Str
  | .system s1 q lit => ['S', 'Y', 'S', 'T', 'E', 'M'] ++ s1 ++ renderQuoted q lit
  | .public_ s1 q1 pub s2 q2 sys => ['P', 'U', 'B', 'L', 'I', 'C'] ++ s1 ++ renderQuoted q1 pub ++ s2 ++ renderQuoted q2 sys

def renderEntityDef : EntityDef → Str
  | .internal q val => renderQuoted q (renderPieces val)
  | .external_ id none => renderExternalID id
  | .external_ id (some (s1, s2, n)) => renderExternalID id ++ s1 ++ ['N', 'D', 'A', 'T', 'A'] ++ s2 ++ n

def renderAttDef (d : AttDef) : Str :=
  d.pre ++ d.name ++ d.s1 ++ d.type ++ d.s2 ++ d.dfltKw ++
    (match d.dflt with
     | none => []
     | some (q, v) => renderQuoted q (renderPieces v))

def renderAttDefs : List AttDef → Str
  | [] => []
  | d :: ds => renderAttDef d ++ renderAttDefs ds

def renderDecl : Decl → Str
  | .ws c => [c]
  | .comment s => ['<', '!', '-', '-'] ++ s ++ ['-', '-', '>']
  | .pi t sp d => '<' :: '?' :: t ++ sp ++ d ++ ['?', '>']
  | .element s1 n s2 spec s3 => ['<', '!', 'E', 'L', 'E', 'M', 'E', 'N', 'T'] ++ s1 ++ n ++ s2 ++ spec ++ s3 ++ ['>']
  | .attlist s1 n defs s2 => ['<', '!', 'A', 'T', 'T', 'L', 'I', 'S', 'T'] ++ s1 ++ n ++ renderAttDefs defs ++ s2 ++ ['>']
  | .entity s1 n s2 d s3 => ['<', '!', 'E', 'N', 'T', 'I', 'T', 'Y'] ++ s1 ++ n ++ s2 ++ renderEntityDef d ++ s3 ++ ['>']
  | .notation_ s1 n s2 id s3 => ['<', '!', 'N', 'O', 'T', 'A', 'T', 'I', 'O', 'N'] ++ s1 ++ n ++ s2 ++ id ++ s3 ++ ['>']

def renderDecls : List Decl → Str
  | [] => []
  | d :: ds => renderDecl d ++ renderDecls ds

def renderDoctype (d : Doctype) : Str :=
  ['<', '!', 'D', 'O', 'C', 'T', 'Y', 'P', 'E'] ++ d.s1 ++ d.name ++ d.s2 ++
    (match d.subset with
     | none => []
     | some (ds, s3) => '[' :: renderDecls ds ++ ']' :: s3) ++ ['>']

/-! tokens -/

def renderTok : Tok → Str
  | .leaf l => renderLeaf l
  | .stag t => renderTagOpen t ++ ['>']
  | .etag n ws => renderETag n ws
  | .empty t => renderTagOpen t ++ ['/', '>']
  | .doctype d => renderDoctype d

def renderToks : List Tok → Str
  | [] => []
  | t :: ts => renderTok t ++ renderToks ts

mutual
/-- the token stream of a node -/
def Node.toks : Node → List Tok
  | .leaf l => [.leaf l]
  | .elem t kids en ews => .stag t :: (Node.toksL kids ++ [.etag en ews])
  | .empty t => [.empty t]
def Node.toksL : List Node → List Tok
  | [] => []
  | n :: ns => n.toks ++ Node.toksL ns
end

/-! XML declaration -/

def renderPseudo (p : PseudoAtt) (name value : Str) : Str :=
  p.pre ++ name ++ renderEq p.eq ++ renderQuoted p.q value

def renderXmlDecl (d : XmlDecl) : Str :=
  ['<', '?', 'x', 'm', 'l'] ++ renderPseudo d.version ['v', 'e', 'r', 's', 'i', 'o', 'n'] ('1' :: '.' :: d.versionMinor) ++
    (match d.encoding with
     | none => []
     | some (p, enc) => renderPseudo p ['e', 'n', 'c', 'o', 'd', 'i', 'n', 'g'] enc) ++
    (match d.standalone with
     | none => []
     | some (p, b) => renderPseudo p ['s', 't', 'a', 'n', 'd', 'a', 'l', 'o', 'n', 'e'] (if b then ['y', 'e', 's'] else ['n', 'o'])) ++
    d.ws ++ ['?', '>']

/-- everything after the XML declaration, as tokens -/
def Doc.toks (d : Doc) : List Tok :=
  d.pre.map .leaf ++
    (match d.doctype with
     | none => []
     | some (dt, misc) => .doctype dt :: misc.map .leaf) ++
    d.root.toks ++ d.post.map .leaf

def render (d : Doc) : Str :=
  (match d.decl with
   | none => []
   | some x => renderXmlDecl x) ++ renderToks d.toks

end XV.Spec.Xml
