/-
Namespaces in XML 1.0 (3rd ed.) / 1.1 (2nd ed.) constraints as a second pass over a well-formed tree:
QName syntax of element and attribute names, NSC Prefix Declared, NSC Reserved Prefixes and Namespace Names,
NSC No Prefix Undeclaring (1.0 only), NSC Attributes Unique, and "no colon in PI targets / entity / notation names".
-/
import XV.Spec.Xml.WF
namespace XV.Spec.Xml
open XV.Spec.XmlChar

def isNCName : Str → Bool
  | [] => false
  | c :: t => isNCNameStart c.toNat && t.all (fun d => isNCNameChar d.toNat)

/-- split a QName [7] into (prefix, local); `none` if it is not a QName -/
def splitQName (n : Str) : Option (Str × Str) :=
  match (spanP (· != ':') n).2 with
  | [] => if isNCName n then some ([], n) else none
  | _ :: loc =>
    if isNCName (spanP (· != ':') n).1 && isNCName loc then some ((spanP (· != ':') n).1, loc) else none

def xmlURI : Str := ['h', 't', 't', 'p', ':', '/', '/', 'w', 'w', 'w', '.', 'w', '3', '.', 'o', 'r', 'g', '/', 'X', 'M', 'L', '/', '1', '9', '9', '8', '/', 'n', 'a', 'm', 'e', 's', 'p', 'a', 'c', 'e']
def xmlnsURI : Str := ['h', 't', 't', 'p', ':', '/', '/', 'w', 'w', 'w', '.', 'w', '3', '.', 'o', 'r', 'g', '/', '2', '0', '0', '0', '/', 'x', 'm', 'l', 'n', 's', '/']

/-- §3.3.3 attribute-value normalisation for CDATA attributes: references expanded, white space → #x20 -/
def normPieces (env : EntEnv) : Nat → List AttPiece → Str
  | 0, _ => []
  | _ + 1, [] => []
  | fuel + 1, .ch c :: ps => (if isSC c then ' ' else c) :: normPieces env (fuel + 1 - 1) ps
  | fuel + 1, .cref r :: ps => Char.ofNat r.value :: normPieces env (fuel + 1 - 1) ps
  | fuel + 1, .eref n :: ps =>
    (if n = ['l', 't'] then ['<'] else if n = ['g', 't'] then ['>'] else if n = ['a', 'm', 'p'] then ['&']
     else if n = ['a', 'p', 'o', 's'] then ['\''] else if n = ['q', 'u', 'o', 't'] then ['"']
     else match env.find n with
       | some (.internal _ val) =>
         match parsePiecesAll ((replacementText val).length + 1) (replacementText val) with
         | some ps' => normPieces env fuel ps'
         | none => []
       | _ => []) ++ normPieces env fuel ps

/-- prefix bindings in scope, innermost first; `none` = undeclared by xmlns:p="" (NS 1.1) -/
abbrev NsEnv := List (Str × Option Str)

def NsEnv.find (e : NsEnv) (p : Str) : Option (Option Str) :=
  match e with
  | [] => none
  | (q, u) :: rest => if q = p then some u else NsEnv.find rest p

/-- the namespace declarations of one tag: checks them and returns the extended environment -/
def nsDecls (env : EntEnv) (v : Version) : List Attr → NsEnv → Except Err NsEnv
  | [], ns => .ok ns
  | a :: as, ns =>
    let uri := normPieces env 64 a.val
    if a.name = ['x', 'm', 'l', 'n', 's'] then
      if uri = xmlnsURI then .error (.fatal "NSC: the xmlns namespace name must not be declared")
      else if uri = xmlURI then .error (.fatal "NSC: the xml namespace name must not be the default namespace")
      else nsDecls env v as (([], if uri.isEmpty then none else some uri) :: ns)
    else
      match stripPrefix ['x', 'm', 'l', 'n', 's', ':'] a.name with
      | none => nsDecls env v as ns
      | some p =>
        if p = ['x', 'm', 'l', 'n', 's'] then .error (.fatal "NSC: the prefix xmlns must not be declared")
        else if p = ['x', 'm', 'l'] && uri != xmlURI then .error (.fatal "NSC: the prefix xml must be bound to its namespace name")
        else if p != ['x', 'm', 'l'] && uri = xmlURI then .error (.fatal "NSC: the xml namespace name must not be bound to another prefix")
        else if uri = xmlnsURI then .error (.fatal "NSC: the xmlns namespace name must not be declared")
        else if uri.isEmpty && v = .v10 then .error (.fatal "NSC No Prefix Undeclaring")
        else nsDecls env v as ((p, if uri.isEmpty then none else some uri) :: ns)

/-- expanded names (namespace name, local part) of the non-declaration attributes -/
def attExpanded (ns : NsEnv) : List Attr → Except Err (List (Str × Str))
  | [] => .ok []
  | a :: as =>
    match splitQName a.name with
    | none => .error (.fatal "attribute name is not a QName")
    | some (p, l) =>
      if a.name = ['x', 'm', 'l', 'n', 's'] || p = ['x', 'm', 'l', 'n', 's'] then attExpanded ns as
      else
        let rest := attExpanded ns as
        if p.isEmpty then rest.map (fun r => ([], l) :: r)
        else if p = ['x', 'm', 'l'] then rest.map (fun r => (xmlURI, l) :: r)
        else
          match ns.find p with
          | some (some u) => rest.map (fun r => (u, l) :: r)
          | _ => .error (.fatal "NSC Prefix Declared: attribute prefix not bound")

def noDupPairs : List (Str × Str) → Bool
  | [] => true
  | x :: xs => !xs.contains x && noDupPairs xs

def nsTag (env : EntEnv) (v : Version) (t : Tag) (ns : NsEnv) : Except Err NsEnv :=
  match nsDecls env v t.atts ns with
  | .error e => .error e
  | .ok ns' =>
    match splitQName t.name with
    | none => .error (.fatal "element name is not a QName")
    | some (p, _) =>
      if p = ['x', 'm', 'l', 'n', 's'] then .error (.fatal "NSC: element names must not have the prefix xmlns")
      else if !p.isEmpty && p != ['x', 'm', 'l'] && (match ns'.find p with | some (some _) => false | _ => true) then
        .error (.fatal "NSC Prefix Declared: element prefix not bound")
      else
        match attExpanded ns' t.atts with
        | .error e => .error e
        | .ok names => if noDupPairs names then .ok ns' else .error (.fatal "NSC Attributes Unique")

def nsLeaf : Leaf → Except Err Unit
  | .pi t _ _ => if t.contains ':' then .error (.fatal "PI target contains a colon") else .ok ()
  | .eref n => if n.contains ':' then .error (.fatal "entity name contains a colon") else .ok ()
  | _ => .ok ()

mutual
def nsNode (env : EntEnv) (v : Version) (ns : NsEnv) : Node → Except Err Unit
  | .leaf l => nsLeaf l
  | .empty t => (nsTag env v t ns).map (fun _ => ())
  | .elem t kids _ _ =>
    match nsTag env v t ns with
    | .error e => .error e
    | .ok ns' => nsNodes env v ns' kids
def nsNodes (env : EntEnv) (v : Version) (ns : NsEnv) : List Node → Except Err Unit
  | [] => .ok ()
  | n :: rest =>
    match nsNode env v ns n with
    | .error e => .error e
    | .ok _ => nsNodes env v ns rest
end

def nsLeaves : List Leaf → Except Err Unit
  | [] => .ok ()
  | l :: ls =>
    match nsLeaf l with
    | .error e => .error e
    | .ok _ => nsLeaves ls

/-- the Names occurring in a content specification (raw text), keywords excluded -/
def specNames : Nat → Str → List Str
  | 0, _ => []
  | _ + 1, [] => []
  | fuel + 1, c :: t =>
    if c = '#' then specNames fuel (spanP isNameCharC t).2
    else if isNameStartC c then
      let n := c :: (spanP isNameCharC t).1
      (if n = ['E', 'M', 'P', 'T', 'Y'] || n = ['A', 'N', 'Y'] then [] else [n]) ++ specNames fuel (spanP isNameCharC t).2
    else specNames fuel t

def isQName (n : Str) : Bool := (splitQName n).isSome

/-- Namespaces in XML §6 productions [16]-[21]: names in the DOCTYPE and in ELEMENT / ATTLIST declarations are QNames;
    entity names, notation names and PI targets contain no colon -/
def nsDecls' : List Decl → Except Err Unit
  | [] => .ok ()
  | .element _ n _ spec _ :: ds =>
    if isQName n && (specNames (spec.length + 1) spec).all isQName then nsDecls' ds
    else .error (.fatal "element declaration: name is not a QName")
  | .attlist _ n defs _ :: ds =>
    if isQName n && defs.all (fun d => isQName d.name) then nsDecls' ds
    else .error (.fatal "attribute-list declaration: name is not a QName")
  | .pi t _ _ :: ds => if t.contains ':' then .error (.fatal "PI target contains a colon") else nsDecls' ds
  | .entity _ n _ _ _ :: ds => if n.contains ':' then .error (.fatal "entity name contains a colon") else nsDecls' ds
  | .notation_ _ n _ _ _ :: ds => if n.contains ':' then .error (.fatal "notation name contains a colon") else nsDecls' ds
  | _ :: ds => nsDecls' ds

/-- namespace well-formedness of a (well-formed) document -/
def nsDoc (d : Doc) : Except Err Unit :=
  match nsLeaves d.pre with
  | .error e => .error e
  | .ok _ =>
    match (match d.doctype with
           | none => (Except.ok () : Except Err Unit)
           | some (dt, m) =>
             if !isQName dt.name then .error (.fatal "DOCTYPE name is not a QName") else
             match nsDecls' dt.decls with | .error e => .error e | .ok _ => nsLeaves m) with
    | .error e => .error e
    | .ok _ =>
      match nsNode d.env d.version [] d.root with
      | .error e => .error e
      | .ok _ => nsLeaves d.post

end XV.Spec.Xml
