/-
Concrete syntax of XML documents (XML 1.0 5th ed. / XML 1.1 2nd ed.) as a data type: one constructor per
production alternative, one field per lexical freedom (quote kind, every S as the list of its white-space
characters, char-ref radix and leading zeros, `<a/>` vs `<a></a>`, CDATA boundaries, …).

`Doc` is a *syntactic* tree: it can also hold documents that violate well-formedness constraints (an end tag
with another name, a duplicate attribute, an undeclared entity reference, an illegal character).  `WF`
(XV.Spec.Xml.WF) says which trees are well-formed documents; `render` (XV.Spec.Xml.Render) prints a tree.
Two views of element content are provided: the token stream (`Tok`, what the scanners see, used by C03's
event semantics) and the tree (`Node`).  No Mathlib.
-/
import XV.Spec.XmlChar
namespace XV.Spec.Xml
open XV.Spec.XmlChar

abbrev Str := List Char

inductive Quote | dq | sq
  deriving DecidableEq, Repr, Inhabited

def Quote.char : Quote → Char
  | .dq => '"'
  | .sq => '\''

/-- [66] CharRef ::= '&#' [0-9]+ ';' | '&#x' [0-9a-fA-F]+ ';'   (digits as written) -/
structure CharRef where
  hex : Bool
  digits : Str
  deriving DecidableEq, Repr, Inhabited

/-- one item of an AttValue [10] (or of a default value / the literal part of an EntityValue) -/
inductive AttPiece
  | ch (c : Char)
  | cref (r : CharRef)
  | eref (n : Str)
  deriving DecidableEq, Repr, Inhabited

/-- [25] Eq ::= S? '=' S? -/
structure EqS where
  pre : Str
  post : Str
  deriving DecidableEq, Repr, Inhabited

/-- S Attribute:  [41] Attribute ::= Name Eq AttValue, with the white space that precedes it in the tag -/
structure Attr where
  pre : Str
  name : Str
  eq : EqS
  q : Quote
  val : List AttPiece
  deriving DecidableEq, Repr, Inhabited

/-- content items that are not elements (and the Misc items of prolog and epilog) -/
inductive Leaf
  /-- one character of CharData [14] -/
  | ch (c : Char)
  | cref (r : CharRef)
  /-- [68] EntityRef -/
  | eref (n : Str)
  /-- [18] CDSect, the text between `<![CDATA[` and `]]>` -/
  | cdata (s : Str)
  /-- [15] Comment, the text between `<!--` and `-->` -/
  | comment (s : Str)
  /-- [16] PI ::= '<?' PITarget (S data)? '?>' ; `sp = []` iff there is no `(S data)` part -/
  | pi (target : Str) (sp : Str) (data : Str)
  deriving DecidableEq, Repr, Inhabited

/-- '<' Name (S Attribute)* S?   — the common part of [40] STag and [44] EmptyElemTag -/
structure Tag where
  name : Str
  atts : List Attr
  ws : Str
  deriving DecidableEq, Repr, Inhabited

/-! ### DOCTYPE with an internal subset (no parameter-entity references, no conditional sections) -/

/-- an external identifier [75] -/
inductive ExternalID
  | system (s1 : Str) (q : Quote) (lit : Str)
  | public_ (s1 : Str) (q1 : Quote) (pub : Str) (s2 : Str) (q2 : Quote) (sys : Str)
  deriving DecidableEq, Repr, Inhabited

/-- Declarations are kept as the reference parser read them: the pieces that matter for well-formedness are
    structured (entity values, attribute defaults), the rest is kept as raw text and re-printed verbatim. -/
inductive EntityDef
  /-- [9] EntityValue without PE references: literal pieces -/
  | internal (q : Quote) (val : List AttPiece)
  | external_ (id : ExternalID) (ndata : Option (Str × Str × Str))   -- S 'NDATA' S Name
  deriving DecidableEq, Repr, Inhabited

structure AttDef where
  pre : Str
  name : Str
  s1 : Str
  /-- attribute type as written, e.g. `CDATA`, `(a|b)`, `NOTATION (n)` -/
  type : Str
  s2 : Str
  /-- `#REQUIRED`, `#IMPLIED`, or `#FIXED` S -/
  dfltKw : Str
  dflt : Option (Quote × List AttPiece)
  deriving DecidableEq, Repr, Inhabited

inductive Decl
  | ws (c : Char)
  | comment (s : Str)
  | pi (target : Str) (sp : Str) (data : Str)
  /-- `<!ELEMENT` S Name S contentspec(raw) S? `>` -/
  | element (s1 : Str) (name : Str) (s2 : Str) (spec : Str) (s3 : Str)
  /-- `<!ATTLIST` S Name AttDef* S? `>` -/
  | attlist (s1 : Str) (name : Str) (defs : List AttDef) (s2 : Str)
  /-- `<!ENTITY` S Name S EntityDef S? `>` -/
  | entity (s1 : Str) (name : Str) (s2 : Str) (d : EntityDef) (s3 : Str)
  /-- `<!NOTATION` S Name S (ExternalID | PublicID)(raw) S? `>` -/
  | notation_ (s1 : Str) (name : Str) (s2 : Str) (id : Str) (s3 : Str)
  deriving DecidableEq, Repr, Inhabited

/-- [28] doctypedecl ::= '<!DOCTYPE' S Name S? ('[' intSubset ']' S?)? '>'   (no ExternalID in the fragment) -/
structure Doctype where
  s1 : Str
  name : Str
  s2 : Str
  subset : Option (List Decl × Str)
  deriving DecidableEq, Repr, Inhabited

/-! ### tokens and trees -/

/-- what the scanner sees in the document entity after the XML declaration -/
inductive Tok
  | leaf (l : Leaf)
  | stag (t : Tag)
  /-- [42] ETag ::= '</' Name S? '>' -/
  | etag (name : Str) (ws : Str)
  | empty (t : Tag)
  | doctype (d : Doctype)
  deriving DecidableEq, Repr, Inhabited

inductive Node
  | leaf (l : Leaf)
  /-- [39] element ::= STag content ETag -/
  | elem (t : Tag) (kids : List Node) (endName : Str) (endWs : Str)
  /-- [39] element ::= EmptyElemTag -/
  | empty (t : Tag)
  deriving Repr, Inhabited

/-- one pseudo-attribute of the XML declaration: S name Eq quote value quote -/
structure PseudoAtt where
  pre : Str
  eq : EqS
  q : Quote
  deriving DecidableEq, Repr, Inhabited

/-- [23] XMLDecl ::= '<?xml' VersionInfo EncodingDecl? SDDecl? S? '?>' -/
structure XmlDecl where
  version : PseudoAtt
  /-- the digits after `1.` of [26] VersionNum ::= '1.' [0-9]+ -/
  versionMinor : Str
  encoding : Option (PseudoAtt × Str)
  standalone : Option (PseudoAtt × Bool)
  ws : Str
  deriving DecidableEq, Repr, Inhabited

/-- [1] document ::= prolog element Misc* ;  [22] prolog ::= XMLDecl? Misc* (doctypedecl Misc*)? -/
structure Doc where
  decl : Option XmlDecl
  pre : List Leaf
  doctype : Option (Doctype × List Leaf)
  root : Node
  post : List Leaf
  deriving Repr, Inhabited

/-- the XML version that governs the document: 1.1 iff declared `1.1`; every other `1.x` is processed as 1.0 -/
def XmlDecl.ver (d : XmlDecl) : Version := if d.versionMinor = ['1'] then .v11 else .v10

def Doc.version (d : Doc) : Version :=
  match d.decl with
  | some x => x.ver
  | none => .v10

end XV.Spec.Xml
