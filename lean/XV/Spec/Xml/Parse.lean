/-
The reference recogniser, stage 1 (characters → tokens) and stage 2 (tokens → tree).
`parseSyn : List Char → Except Err Doc` accepts exactly the renderings of lexically valid trees
(`XV.Props.C02.parseSyn_render`, `parseSyn_sound`); the well-formedness constraints proper are checked on the
tree (`XV.Spec.Xml.WF`).
-/
import XV.Spec.Xml.Lex
import XV.Spec.Xml.Dtd
namespace XV.Spec.Xml
open XV.Spec.XmlChar

/-- S Attribute, the S already read: Name Eq AttValue -/
def parseAttr (pre : Str) (s : Str) : Res Attr :=
  match parseName s with
  | none => .error (.fatal "attribute name expected")
  | some (n, r1) =>
    match parseEq r1 with
    | none => .error (.fatal "'=' expected after attribute name")
    | some (eq, r2) =>
      match parseQuote r2 with
      | none => .error (.fatal "quoted attribute value expected")
      | some (q, r3) =>
        match parsePieces q r3.length r3 with
        | .error e => .error e
        | .ok (ps, r4) => .ok (⟨pre, n, eq, q, ps⟩, r4)

/-- (S Attribute)* S? then '>' or '/>' ; result: attributes, final S, is-empty-element-tag -/
def parseAtts : Nat → Str → Res (List Attr × Str × Bool)
  | 0, _ => .error (.fatal "tag: out of fuel")
  | fuel + 1, s =>
    match (spanP isSC s).2 with
    | [] => .error (.fatal "tag: end of input")
    | c :: t =>
      if c = '>' then .ok (([], (spanP isSC s).1, false), t)
      else if c = '/' then
        match t with
        | [] => .error (.fatal "tag: end of input after '/'")
        | d :: t' => if d = '>' then .ok (([], (spanP isSC s).1, true), t') else .error (.fatal "tag: '>' expected after '/'")
      else if (spanP isSC s).1 = [] then .error (.fatal "tag: white space expected before attribute")
      else
        match parseAttr (spanP isSC s).1 (c :: t) with
        | .error e => .error e
        | .ok (a, r) =>
          match parseAtts fuel r with
          | .error e => .error e
          | .ok ((as, w, e), r') => .ok ((a :: as, w, e), r')

/-- after '<' : Name (S Attribute)* S? ('>' | '/>') -/
def parseTag (s : Str) : Res Tok :=
  match parseName s with
  | none => .error (.fatal "element name expected after '<'")
  | some (n, r) =>
    match parseAtts r.length r with
    | .error e => .error e
    | .ok ((as, w, e), r') => .ok (if e then .empty ⟨n, as, w⟩ else .stag ⟨n, as, w⟩, r')

/-- after '</' : Name S? '>' -/
def parseETag (s : Str) : Res Tok :=
  match parseName s with
  | none => .error (.fatal "element name expected after '</'")
  | some (n, r) =>
    match (spanP isSC r).2 with
    | [] => .error (.fatal "end tag: end of input")
    | c :: t => if c = '>' then .ok (.etag n (spanP isSC r).1, t) else .error (.fatal "end tag: '>' expected")

/-- after '<!' -/
def parseBang (s : Str) : Res Tok :=
  match stripPrefix ['-', '-'] s with
  | some r =>
    match parseComment r with
    | .error e => .error e
    | .ok (b, r') => .ok (.leaf (.comment b), r')
  | none =>
    match stripPrefix ['[', 'C', 'D', 'A', 'T', 'A', '['] s with
    | some r =>
      match scanUntil [']', ']', '>'] r with
      | none => .error (.fatal "CDATA section: unterminated")
      | some (b, r') => .ok (.leaf (.cdata b), r')
    | none =>
      match stripPrefix ['D', 'O', 'C', 'T', 'Y', 'P', 'E'] s with
      | some r =>
        match parseDoctype r with
        | .error e => .error e
        | .ok (d, r') => .ok (.doctype d, r')
      | none => .error (.fatal "'<!' not followed by '--', '[CDATA[' or 'DOCTYPE'")

/-- one token from a non-empty input -/
def nextTok : Str → Res Tok
  | [] => .error (.fatal "end of input")
  | c :: t =>
    if c = '<' then
      match t with
      | [] => .error (.fatal "end of input after '<'")
      | d :: t' =>
        if d = '!' then parseBang t'
        else if d = '?' then
          match parsePI t' with
          | .error e => .error e
          | .ok ((n, sp, dt), r) => .ok (.leaf (.pi n sp dt), r)
        else if d = '/' then parseETag t'
        else parseTag (d :: t')
    else if c = '&' then
      match parseRef t with
      | .error e => .error e
      | .ok (.cref r, rest) => .ok (.leaf (.cref r), rest)
      | .ok (.eref n, rest) => .ok (.leaf (.eref n), rest)
      | .ok (.ch _, _) => .error (.fatal "unreachable")
    else .ok (.leaf (.ch c), t)

def tokenize : Nat → Str → Except Err (List Tok)
  | 0, _ => .error (.fatal "tokenize: out of fuel")
  | _ + 1, [] => .ok []
  | fuel + 1, c :: t =>
    match nextTok (c :: t) with
    | .error e => .error e
    | .ok (tk, r) =>
      match tokenize fuel r with
      | .error e => .error e
      | .ok ts => .ok (tk :: ts)

/-! ### tokens → tree -/

/-- nodes up to (not including) the first unmatched end tag, or to the end of the tokens -/
def parseNodes : Nat → List Tok → Except Err (List Node × List Tok)
  | 0, _ => .error (.fatal "nodes: out of fuel")
  | _ + 1, [] => .ok ([], [])
  | fuel + 1, tk :: ts =>
    match tk with
    | .etag n w => .ok ([], .etag n w :: ts)
    | .doctype _ => .error (.fatal "DOCTYPE declaration inside content")
    | .leaf l =>
      match parseNodes fuel ts with
      | .error e => .error e
      | .ok (ns, r) => .ok (.leaf l :: ns, r)
    | .empty t =>
      match parseNodes fuel ts with
      | .error e => .error e
      | .ok (ns, r) => .ok (.empty t :: ns, r)
    | .stag t =>
      match parseNodes fuel ts with
      | .error e => .error e
      | .ok (_, []) => .error (.fatal "element not terminated")
      | .ok (kids, e :: r) =>
        match e with
        | .etag en ew =>
          match parseNodes fuel r with
          | .error e => .error e
          | .ok (ns, r') => .ok (.elem t kids en ew :: ns, r')
        | _ => .error (.fatal "unreachable: nodes stop only at an end tag")

/-- leading leaf tokens (Misc candidates) -/
def takeLeaves : List Tok → List Leaf × List Tok
  | .leaf l :: ts => (l :: (takeLeaves ts).1, (takeLeaves ts).2)
  | ts => ([], ts)

/-- root element, Misc* (after the prolog) -/
def buildRoot (decl : Option XmlDecl) (pre : List Leaf) (dt : Option (Doctype × List Leaf)) : List Tok → Except Err Doc
  | [] => .error (.fatal "no root element")
  | .empty t :: r =>
    if (takeLeaves r).2 = [] then .ok ⟨decl, pre, dt, .empty t, (takeLeaves r).1⟩
    else .error (.fatal "markup after the root element")
  | .stag t :: r =>
    match parseNodes (r.length + 1) r with
    | .error e => .error e
    | .ok (_, []) => .error (.fatal "root element not terminated")
    | .ok (kids, e :: r') =>
      match e with
      | .etag en ew =>
        if (takeLeaves r').2 = [] then .ok ⟨decl, pre, dt, .elem t kids en ew, (takeLeaves r').1⟩
        else .error (.fatal "markup after the root element")
      | _ => .error (.fatal "unreachable")
  | .etag _ _ :: _ => .error (.fatal "end tag without start tag")
  | .doctype _ :: _ => .error (.fatal "second DOCTYPE declaration")
  | .leaf _ :: _ => .error (.fatal "unreachable")

/-- prolog Misc*, optional DOCTYPE, Misc*, root element, Misc* -/
def buildDoc (decl : Option XmlDecl) (ts : List Tok) : Except Err Doc :=
  match (takeLeaves ts).2 with
  | .doctype d :: r => buildRoot decl (takeLeaves ts).1 (some (d, (takeLeaves r).1)) (takeLeaves r).2
  | r => buildRoot decl (takeLeaves ts).1 none r

/-! ### XML declaration -/

/-- S name Eq quote : returns the pseudo-attribute frame and the text after the opening quote -/
def parsePseudoHead (pre : Str) (s : Str) : Option (PseudoAtt × Str) :=
  match parseEq s with
  | none => none
  | some (eq, r) =>
    match parseQuote r with
    | none => none
    | some (q, r') => some (⟨pre, eq, q⟩, r')

def expectChar (c : Char) : Str → Option Str
  | [] => none
  | d :: t => if d = c then some t else none

/-- after the version value: EncodingDecl? SDDecl? S? '?>' ; `w` is the S already read -/
def parseDeclTail (ver : PseudoAtt) (minor : Str) (enc : Option (PseudoAtt × Str)) (w : Str) (s : Str) : Res XmlDecl :=
  match stripPrefix ['s', 't', 'a', 'n', 'd', 'a', 'l', 'o', 'n', 'e'] s with
  | some r =>
    if w = [] then .error (.fatal "XMLDecl: white space expected before 'standalone'") else
    match parsePseudoHead w r with
    | none => .error (.fatal "XMLDecl: standalone: '=' and quoted value expected")
    | some (p, r1) =>
      let fin (b : Bool) (r2 : Str) : Res XmlDecl :=
        match expectChar p.q.char r2 with
        | none => .error (.fatal "XMLDecl: standalone value must be 'yes' or 'no'")
        | some r3 =>
          match stripPrefix ['?', '>'] (spanP isSC r3).2 with
          | none => .error (.fatal "XMLDecl: '?>' expected")
          | some r4 => .ok (⟨ver, minor, enc, some (p, b), (spanP isSC r3).1⟩, r4)
      match stripPrefix ['y', 'e', 's'] r1 with
      | some r2 => fin true r2
      | none =>
        match stripPrefix ['n', 'o'] r1 with
        | some r2 => fin false r2
        | none => .error (.fatal "XMLDecl: standalone value must be 'yes' or 'no'")
  | none =>
    match stripPrefix ['?', '>'] s with
    | none => .error (.fatal "XMLDecl: '?>' expected")
    | some r => .ok (⟨ver, minor, enc, none, w⟩, r)

/-- after '<?xml' (the next character is known to be white space) -/
def parseXmlDecl (s : Str) : Res XmlDecl :=
  match stripPrefix ['v', 'e', 'r', 's', 'i', 'o', 'n'] (spanP isSC s).2 with
  | none => .error (.fatal "XMLDecl: 'version' expected")
  | some r =>
    match parsePseudoHead (spanP isSC s).1 r with
    | none => .error (.fatal "XMLDecl: version: '=' and quoted value expected")
    | some (pv, r1) =>
      match stripPrefix ['1', '.'] r1 with
      | none => .error (.fatal "XMLDecl: version number must be 1.x")
      | some r2 =>
        if (spanP isDigitC r2).1 = [] then .error (.fatal "XMLDecl: version number must be 1.x") else
        match expectChar pv.q.char (spanP isDigitC r2).2 with
        | none => .error (.fatal "XMLDecl: version number must be 1.x")
        | some r3 =>
          match stripPrefix ['e', 'n', 'c', 'o', 'd', 'i', 'n', 'g'] (spanP isSC r3).2 with
          | none => parseDeclTail pv (spanP isDigitC r2).1 none (spanP isSC r3).1 (spanP isSC r3).2
          | some r4 =>
            if (spanP isSC r3).1 = [] then .error (.fatal "XMLDecl: white space expected before 'encoding'") else
            match parsePseudoHead (spanP isSC r3).1 r4 with
            | none => .error (.fatal "XMLDecl: encoding: '=' and quoted value expected")
            | some (pe, r5) =>
              match r5 with
              | [] => .error (.fatal "XMLDecl: encoding name expected")
              | c :: t =>
                if !isAlphaC c then .error (.fatal "XMLDecl: encoding name must start with a letter") else
                match expectChar pe.q.char (spanP isEncNameC t).2 with
                | none => .error (.fatal "XMLDecl: illegal character in encoding name")
                | some r6 =>
                  parseDeclTail pv (spanP isDigitC r2).1 (some (pe, c :: (spanP isEncNameC t).1))
                    (spanP isSC r6).1 (spanP isSC r6).2

/-- does the document entity start with an XML declaration?  (`<?xml` followed by white space) -/
def startsWithDecl (s : Str) : Option Str :=
  match stripPrefix ['<', '?', 'x', 'm', 'l'] s with
  | none => none
  | some r =>
    match r with
    | [] => none
    | c :: _ => if isSC c then some r else none

/-- characters → syntactic tree -/
def parseSyn (s : Str) : Except Err Doc :=
  match startsWithDecl s with
  | some r =>
    match parseXmlDecl r with
    | .error e => .error e
    | .ok (d, r') =>
      match tokenize (r'.length + 1) r' with
      | .error e => .error e
      | .ok ts => buildDoc (some d) ts
  | none =>
    match tokenize (s.length + 1) s with
    | .error e => .error e
    | .ok ts => buildDoc none ts

end XV.Spec.Xml
