/-
Small scanning combinators of the reference recogniser and the character predicates on `Char`.
Everything is structural recursion or recursion on explicit fuel; no Mathlib.
-/
import XV.Spec.Xml.Doc
namespace XV.Spec.Xml
open XV.Spec.XmlChar

/-- outcome of the reference processor: a fatal error, or "outside the modelled fragment" (never a default verdict) -/
inductive Err
  | fatal (why : String)
  | unsupported (why : String)
  deriving Repr, DecidableEq, Inhabited

abbrev Res (α : Type) := Except Err (α × Str)

def isSC (c : Char) : Bool := isS c.toNat
def isNameStartC (c : Char) : Bool := isNameStart c.toNat
def isNameCharC (c : Char) : Bool := isNameChar c.toNat
def isDigitC (c : Char) : Bool := inR c.toNat 0x30 0x39
def isHexC (c : Char) : Bool := inR c.toNat 0x30 0x39 || inR c.toNat 0x41 0x46 || inR c.toNat 0x61 0x66
def isAlphaC (c : Char) : Bool := inR c.toNat 0x41 0x5A || inR c.toNat 0x61 0x7A
/-- [81] EncName ::= [A-Za-z] ([A-Za-z0-9._] | '-')* : the tail characters -/
def isEncNameC (c : Char) : Bool := isAlphaC c || isDigitC c || c == '.' || c == '_' || c == '-'

/-- longest prefix of characters satisfying `p`, and the rest -/
def spanP (p : Char → Bool) : Str → Str × Str
  | [] => ([], [])
  | c :: t => if p c then ((c :: (spanP p t).1), (spanP p t).2) else ([], c :: t)

/-- `s` minus the prefix `p`, if `s` starts with `p` -/
def stripPrefix : Str → Str → Option Str
  | [], s => some s
  | _ :: _, [] => none
  | c :: p, d :: s => if c = d then stripPrefix p s else none

/-- text up to the first occurrence of `needle`, and the text after that occurrence -/
def scanUntil (needle : Str) : Str → Option (Str × Str)
  | [] => none
  | c :: t =>
    match stripPrefix needle (c :: t) with
    | some r => some ([], r)
    | none =>
      match scanUntil needle t with
      | some (a, r) => some (c :: a, r)
      | none => none

/-- `body`, when followed by `needle`, does not contain an earlier occurrence of `needle`:
    at no position of `body` does the remaining text (completed by `needle`) start with `needle`. -/
def noEarly (needle : Str) : Str → Bool
  | [] => true
  | c :: t => (stripPrefix needle (c :: t ++ needle)).isNone && noEarly needle t

/-- [5] Name ::= NameStartChar (NameChar)* -/
def isName : Str → Bool
  | [] => false
  | c :: t => isNameStartC c && t.all isNameCharC

def parseName : Str → Option (Str × Str)
  | [] => none
  | c :: t => if isNameStartC c then some (c :: (spanP isNameCharC t).1, (spanP isNameCharC t).2) else none

/-- [25] Eq ::= S? '=' S? -/
def parseEq (s : Str) : Option (EqS × Str) :=
  match (spanP isSC s).2 with
  | [] => none
  | c :: t => if c = '=' then some (⟨(spanP isSC s).1, (spanP isSC t).1⟩, (spanP isSC t).2) else none

def parseQuote : Str → Option (Quote × Str)
  | [] => none
  | c :: t => if c = '"' then some (.dq, t) else if c = '\'' then some (.sq, t) else none

/-- after '&' -/
def parseRef : Str → Res AttPiece
  | [] => .error (.fatal "reference: end of input after '&'")
  | c :: t =>
    if c = '#' then
      match t with
      | [] => .error (.fatal "character reference: end of input")
      | d :: t' =>
        if d = 'x' then
          match (spanP isHexC t').1, (spanP isHexC t').2 with
          | [], _ => .error (.fatal "character reference: no hex digits")
          | ds, e :: r => if e = ';' then .ok (.cref ⟨true, ds⟩, r) else .error (.fatal "character reference: ';' expected")
          | _, [] => .error (.fatal "character reference: unterminated")
        else
          match (spanP isDigitC t).1, (spanP isDigitC t).2 with
          | [], _ => .error (.fatal "character reference: no digits")
          | ds, e :: r => if e = ';' then .ok (.cref ⟨false, ds⟩, r) else .error (.fatal "character reference: ';' expected")
          | _, [] => .error (.fatal "character reference: unterminated")
    else
      match parseName (c :: t) with
      | none => .error (.fatal "entity reference: name expected after '&'")
      | some (n, r) =>
        match r with
        | [] => .error (.fatal "entity reference: unterminated")
        | e :: r' => if e = ';' then .ok (.eref n, r') else .error (.fatal "entity reference: ';' expected")

/-- pieces of a quoted literal up to the closing quote (which is consumed) -/
def parsePieces (q : Quote) : Nat → Str → Res (List AttPiece)
  | 0, _ => .error (.fatal "literal: out of fuel")
  | _ + 1, [] => .error (.fatal "literal: unterminated")
  | fuel + 1, c :: t =>
    if c = q.char then .ok ([], t)
    else if c = '&' then
      match parseRef t with
      | .error e => .error e
      | .ok (p, r) =>
        match parsePieces q fuel r with
        | .error e => .error e
        | .ok (ps, r') => .ok (p :: ps, r')
    else
      match parsePieces q fuel t with
      | .error e => .error e
      | .ok (ps, r') => .ok (.ch c :: ps, r')

/-- after '<?' : PITarget (S data)? '?>' -/
def parsePI (s : Str) : Res (Str × Str × Str) :=
  match parseName s with
  | none => .error (.fatal "PI target expected")
  | some (n, r) =>
    match stripPrefix ['?', '>'] r with
    | some r' => .ok ((n, [], []), r')
    | none =>
      if (spanP isSC r).1 = [] then .error (.fatal "PI: white space expected after target")
      else
        match scanUntil ['?', '>'] (spanP isSC r).2 with
        | none => .error (.fatal "PI: unterminated")
        | some (d, r') => .ok ((n, (spanP isSC r).1, d), r')

/-- after '<!--' -/
def parseComment (s : Str) : Res Str :=
  match scanUntil ['-', '-'] s with
  | none => .error (.fatal "comment: unterminated")
  | some (b, r) =>
    match r with
    | [] => .error (.fatal "comment: end of input after '--'")
    | c :: r' => if c = '>' then .ok (b, r') else .error (.fatal "comment: '--' inside")

end XV.Spec.Xml
