/-
Well-formedness of a syntactic tree: `WF d = Lex d ∧ Sem d`.

`lexDoc` — every field holds text of the right lexical shape (names are Names, S fields are white space, no
delimiter inside a body, …): exactly the trees whose rendering can be read back.
`semDoc` — the well-formedness constraints proper (XML 1.0 §2–§4: legal characters, Element Type Match, Unique Att
Spec, No < in Attribute Values, Legal Character, Entity Declared, Parsed Entity, No Recursion, No External Entity
References, PI target not `xml`, no `]]>` in character data, only Misc outside the root element).
`nsDoc` — the constraints of Namespaces in XML 1.0 as a second pass.
All are Boolean / `Except` functions (decidable by evaluation).  No Mathlib.
-/
import XV.Spec.Xml.Render
import XV.Spec.Xml.Parse
namespace XV.Spec.Xml
open XV.Spec.XmlChar

/-! ### lexical validity -/

def allS (s : Str) : Bool := s.all isSC

def lexCharRef (r : CharRef) : Bool :=
  !r.digits.isEmpty && r.digits.all (if r.hex then isHexC else isDigitC)

def lexPiece (q : Quote) : AttPiece → Bool
  | .ch c => c != q.char && c != '&'
  | .cref r => lexCharRef r
  | .eref n => isName n

def lexEq (e : EqS) : Bool := allS e.pre && allS e.post

def lexAttr (a : Attr) : Bool :=
  allS a.pre && !a.pre.isEmpty && isName a.name && lexEq a.eq && a.val.all (lexPiece a.q)

def lexTag (t : Tag) : Bool := isName t.name && t.atts.all lexAttr && allS t.ws

def headNotS : Str → Bool
  | [] => true
  | c :: _ => !isSC c

def lexPI (t sp d : Str) : Bool :=
  isName t && allS sp && (if sp.isEmpty then d.isEmpty else headNotS d) && noEarly ['?', '>'] d

def lexLeaf : Leaf → Bool
  | .ch c => c != '<' && c != '&'
  | .cref r => lexCharRef r
  | .eref n => isName n
  | .cdata s => noEarly [']', ']', '>'] s
  | .comment s => noEarly ['-', '-'] s
  | .pi t sp d => lexPI t sp d

/-- lexical validity of a DOCTYPE declaration: its rendering is read back as itself by `parseDoctype`
    (the structure keeps content specifications, attribute types and notation identifiers as raw text) -/
def lexDoctype (d : Doctype) : Bool :=
  match stripPrefix ['<', '!', 'D', 'O', 'C', 'T', 'Y', 'P', 'E'] (renderDoctype d) with
  | none => false
  | some body =>
    match parseDoctype body with
    | .ok (d', []) => d' == d
    | _ => false

mutual
def lexNode : Node → Bool
  | .leaf l => lexLeaf l
  | .elem t kids en ew => lexTag t && lexNodes kids && isName en && allS ew
  | .empty t => lexTag t
def lexNodes : List Node → Bool
  | [] => true
  | n :: ns => lexNode n && lexNodes ns
end

def lexPseudo (p : PseudoAtt) : Bool := allS p.pre && !p.pre.isEmpty && lexEq p.eq

def lexEncName : Str → Bool
  | [] => false
  | c :: t => isAlphaC c && t.all isEncNameC

def lexXmlDecl (d : XmlDecl) : Bool :=
  lexPseudo d.version && !d.versionMinor.isEmpty && d.versionMinor.all isDigitC &&
  (match d.encoding with | none => true | some (p, e) => lexPseudo p && lexEncName e) &&
  (match d.standalone with | none => true | some (p, _) => lexPseudo p) &&
  allS d.ws

def Node.isElement : Node → Bool
  | .leaf _ => false
  | _ => true

def lexDoc (d : Doc) : Bool :=
  (match d.decl with
   | some x => lexXmlDecl x
   | none => (startsWithDecl (renderToks d.toks)).isNone) &&
  d.pre.all lexLeaf &&
  (match d.doctype with | none => true | some (dt, m) => lexDoctype dt && m.all lexLeaf) &&
  d.root.isElement && lexNode d.root && d.post.all lexLeaf

/-! ### well-formedness constraints -/

def digitVal (c : Char) : Nat :=
  if isDigitC c then c.toNat - 0x30
  else if inR c.toNat 0x41 0x46 then c.toNat - 0x41 + 10
  else c.toNat - 0x61 + 10

def CharRef.value (r : CharRef) : Nat :=
  r.digits.foldl (fun acc c => acc * (if r.hex then 16 else 10) + digitVal c) 0

/-- WFC Legal Character: the referenced character matches production Char of the document's version -/
def semCharRef (v : Version) (r : CharRef) : Bool := isRefChar v r.value

def lower (c : Char) : Char := if inR c.toNat 0x41 0x5A then Char.ofNat (c.toNat + 32) else c

/-- [17] PITarget ::= Name - (('X' | 'x') ('M' | 'm') ('L' | 'l')) -/
def piTargetOk (t : Str) : Bool := t.map lower != ['x', 'm', 'l']

def predefined : List Str := [['l', 't'], ['g', 't'], ['a', 'm', 'p'], ['a', 'p', 'o', 's'], ['q', 'u', 'o', 't']]

/-- general entities declared in the internal subset, first declaration first -/
abbrev EntEnv := List (Str × EntityDef)

def EntEnv.find (env : EntEnv) (n : Str) : Option EntityDef :=
  match env with
  | [] => none
  | (m, d) :: rest => if m = n then some d else EntEnv.find rest n

/-- replacement text of an internal entity (§4.5): character references expanded, entity references kept -/
def replacementText : List AttPiece → Str
  | [] => []
  | .ch c :: ps => c :: replacementText ps
  | .cref r :: ps => Char.ofNat r.value :: replacementText ps
  | .eref n :: ps => renderEntRef n ++ replacementText ps

/-- pieces of an attribute-value-like text up to its end (no closing quote) -/
def parsePiecesAll : Nat → Str → Option (List AttPiece)
  | 0, _ => none
  | _ + 1, [] => some []
  | fuel + 1, c :: t =>
    if c = '&' then
      match parseRef t with
      | .error _ => none
      | .ok (p, r) => (parsePiecesAll fuel r).map (p :: ·)
    else (parsePiecesAll fuel t).map (.ch c :: ·)

def pieceRefs : List AttPiece → List Str
  | [] => []
  | .eref n :: ps => n :: pieceRefs ps
  | _ :: ps => pieceRefs ps

/-- Attribute values: WFC No < in Attribute Values (literal), Legal Character -/
def semPiece (v : Version) : AttPiece → Bool
  | .ch c => c != '<'
  | .cref r => semCharRef v r
  | .eref _ => true

def noDup : List Str → Bool
  | [] => true
  | n :: ns => !ns.contains n && noDup ns

/-- WFC Unique Att Spec + the per-attribute constraints -/
def semTag (v : Version) (t : Tag) : Bool :=
  noDup (t.atts.map (·.name)) && t.atts.all (fun a => a.val.all (semPiece v))

def semLeaf (v : Version) : Leaf → Bool
  | .cref r => semCharRef v r
  | .pi t _ _ => piTargetOk t
  | _ => true

/-- `]]>` must not appear in character data ([14] CharData): three consecutive literal characters -/
def noCdataEnd : List Node → Bool
  | .leaf (.ch a) :: .leaf (.ch b) :: .leaf (.ch c) :: rest =>
    !(a == ']' && b == ']' && c == '>') && noCdataEnd (.leaf (.ch b) :: .leaf (.ch c) :: rest)
  | _ :: rest => noCdataEnd rest
  | [] => true

mutual
/-- node-level constraints: Element Type Match, attributes, references, PI targets, `]]>` -/
def semNode (v : Version) : Node → Bool
  | .leaf l => semLeaf v l
  | .elem t kids en _ => semTag v t && t.name == en && noCdataEnd kids && semNodes v kids
  | .empty t => semTag v t
def semNodes (v : Version) : List Node → Bool
  | [] => true
  | n :: ns => semNode v n && semNodes v ns
end

/-- [27] Misc ::= Comment | PI | S -/
def isMisc : Leaf → Bool
  | .comment _ => true
  | .pi _ _ _ => true
  | .ch c => isSC c
  | _ => false

/-! entity references: which entities are used where -/

mutual
def contentRefs : Node → List Str
  | .leaf (.eref n) => [n]
  | .leaf _ => []
  | .elem _ kids _ _ => contentRefsL kids
  | .empty _ => []
def contentRefsL : List Node → List Str
  | [] => []
  | n :: ns => contentRefs n ++ contentRefsL ns
end

def tagAttRefs (t : Tag) : List Str := t.atts.flatMap (fun a => pieceRefs a.val)

mutual
def attRefs : Node → List Str
  | .leaf _ => []
  | .elem t kids _ _ => tagAttRefs t ++ attRefsL kids
  | .empty t => tagAttRefs t
def attRefsL : List Node → List Str
  | [] => []
  | n :: ns => attRefs n ++ attRefsL ns
end

/-- what the replacement text of an internal entity is when used in content: a balanced node list -/
def entityAsContent (val : List AttPiece) : Except Err (List Node) :=
  let txt := replacementText val
  match tokenize (txt.length + 1) txt with
  | .error e => .error e
  | .ok ts =>
    match parseNodes (ts.length + 1) ts with
    | .error e => .error e
    | .ok (ns, []) => .ok ns
    | .ok (_, _ :: _) => .error (.fatal "entity replacement text: end tag without start tag")

inductive Use | content | attr
  deriving DecidableEq, Repr

/-- one step of the reachability closure.  `todo`: (entity name, how it is used) still to examine;
    `seen`: already examined.  Returns the edges found (for the recursion check) or the violation. -/
def entityClosure (env : EntEnv) (v : Version) :
    Nat → List (Str × Use) → List (Str × Use) → List ((Str × Use) × (Str × Use)) →
    Except Err (List ((Str × Use) × (Str × Use)))
  | 0, _, _, _ => .error (.unsupported "entity closure: out of fuel")
  | _ + 1, [], _, edges => .ok edges
  | fuel + 1, (n, u) :: todo, seen, edges =>
    if seen.contains (n, u) then entityClosure env v fuel todo seen edges
    else if predefined.contains n then entityClosure env v fuel todo ((n, u) :: seen) edges
    else
      match env.find n with
      | none => .error (.fatal "WFC Entity Declared: undeclared entity")
      | some (.external_ _ (some _)) => .error (.fatal "reference to an unparsed entity")
      | some (.external_ _ none) =>
        if u = .attr then .error (.fatal "WFC No External Entity References")
        else .error (.unsupported "reference to an external parsed entity")
      | some (.internal _ val) =>
        match u with
        | .attr =>
          let txt := replacementText val
          if txt.contains '<' then .error (.fatal "WFC No < in Attribute Values (entity replacement text)") else
          match parsePiecesAll (txt.length + 1) txt with
          | none => .error (.fatal "entity replacement text in attribute value: malformed reference")
          | some ps =>
            if !ps.all (semPiece v) then .error (.fatal "entity replacement text in attribute value: illegal character reference") else
            let next := (pieceRefs ps).map (fun m => (m, Use.attr))
            entityClosure env v fuel (next ++ todo) ((n, u) :: seen) (next.map (fun x => ((n, u), x)) ++ edges)
        | .content =>
          match entityAsContent val with
          | .error e => .error e
          | .ok ns =>
            if !(semNodes v ns && noCdataEnd ns) then .error (.fatal "entity replacement text: not well-formed content") else
            let next := (contentRefsL ns).map (fun m => (m, Use.content)) ++ (attRefsL ns).map (fun m => (m, Use.attr))
            entityClosure env v fuel (next ++ todo) ((n, u) :: seen) (next.map (fun x => ((n, u), x)) ++ edges)

/-- WFC No Recursion: the reference graph among the used entities has no cycle (peel off sinks) -/
def acyclic (edges : List ((Str × Use) × (Str × Use))) : Nat → List (Str × Use) → Bool
  | 0, live => live.isEmpty
  | k + 1, live =>
    let live' := live.filter (fun x => edges.any (fun e => e.1 == x && live.contains e.2))
    if live'.length == live.length then live.isEmpty else acyclic edges k live'

def semEntities (env : EntEnv) (v : Version) (root : Node) : Except Err Unit :=
  let start := (contentRefs root).map (fun m => (m, Use.content)) ++ (attRefs root).map (fun m => (m, Use.attr))
  if start.isEmpty then .ok () else
  let bound := (env.length + 6) * 2 + start.length
  match entityClosure env v (bound * (bound + 2) + 16) start [] [] with
  | .error e => .error e
  | .ok edges =>
    let nodes := (edges.map (·.1) ++ edges.map (·.2)).eraseDups
    if acyclic edges (nodes.length + 1) nodes then .ok () else .error (.fatal "WFC No Recursion")

/-- general entities declared in the internal subset, in document order (the first declaration of a name binds) -/
def declEntities : List Decl → EntEnv
  | [] => []
  | .entity _ n _ d _ :: ds => (n, d) :: declEntities ds
  | _ :: ds => declEntities ds

def Doctype.decls (d : Doctype) : List Decl :=
  match d.subset with
  | none => []
  | some (ds, _) => ds

def Doc.env (d : Doc) : EntEnv :=
  match d.doctype with
  | none => []
  | some (dt, _) => declEntities dt.decls

/-- constraints on the declarations of the internal subset, in order; `env` = entities declared so far (reversed) -/
def semDecls (v : Version) : List Decl → EntEnv → Except Err Unit
  | [], _ => .ok ()
  | .pi t _ _ :: ds, env => if piTargetOk t then semDecls v ds env else .error (.fatal "PI target 'xml' in the internal subset")
  | .entity _ n _ (.internal _ val) _ :: ds, env =>
    if val.all (fun p => match p with | .cref r => semCharRef v r | _ => true) then
      semDecls v ds (env ++ [(n, .internal .dq val)])
    else .error (.fatal "WFC Legal Character in entity value")
  | .entity _ n _ d _ :: ds, env => semDecls v ds (env ++ [(n, d)])
  | .attlist _ _ defs _ :: ds, env =>
    let vals := defs.filterMap (fun d => d.dflt.map (·.2))
    if !vals.all (fun ps => ps.all (semPiece v)) then .error (.fatal "attribute default: '<' or illegal character reference") else
    let refs := (vals.flatMap pieceRefs).map (fun m => (m, Use.attr))
    if refs.isEmpty then semDecls v ds env else
    let bound := (env.length + 6) * 2 + refs.length
    match entityClosure env v (bound * (bound + 2) + 16) refs [] [] with
    | .error e => .error e
    | .ok edges =>
      let nodes := (edges.map (·.1) ++ edges.map (·.2)).eraseDups
      if acyclic edges (nodes.length + 1) nodes then semDecls v ds env else .error (.fatal "WFC No Recursion")
  | _ :: ds, env => semDecls v ds env

/-- all literal characters of the document are legal for its version ([2] Char; 1.1: not RestrictedChar) -/
def semLegal (d : Doc) : Bool := (render d).all (fun c => isLiteralChar d.version c.toNat)

def semDocBool (d : Doc) : Bool :=
  semLegal d &&
  d.pre.all (fun l => isMisc l && semLeaf d.version l) &&
  (match d.doctype with | none => true | some (_, m) => m.all (fun l => isMisc l && semLeaf d.version l)) &&
  semNode d.version d.root &&
  d.post.all (fun l => isMisc l && semLeaf d.version l)

/-- the constraints beyond lexical shape; `.ok ()` = all hold -/
def semDoc (d : Doc) : Except Err Unit :=
  if !semDocBool d then .error (.fatal "well-formedness constraint violated") else
  match (match d.doctype with
         | none => (Except.ok () : Except Err Unit)
         | some (dt, _) => semDecls d.version dt.decls []) with
  | .error e => .error e
  | .ok _ => semEntities d.env d.version d.root

def semOk (d : Doc) : Bool :=
  match semDoc d with
  | .ok _ => true
  | .error _ => false

/-- the document is well-formed -/
def WF (d : Doc) : Prop := lexDoc d = true ∧ semOk d = true

instance (d : Doc) : Decidable (WF d) := by unfold WF; exact inferInstance

/-- the reference processor: recognise, then check the constraints -/
def parse (s : Str) : Except Err Doc :=
  match parseSyn s with
  | .error e => .error e
  | .ok d =>
    match semDoc d with
    | .error e => .error e
    | .ok () => .ok d

end XV.Spec.Xml
