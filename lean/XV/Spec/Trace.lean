/-
C17 — concurrency traces.  Declarative, executable spec (core Lean only; compiled into `xvdriver`).

A trace is the list of events a run of N threads produced, in the order the recorder serialised them.
`Holds`, `WellFormedLocks`, `LocksetOK`, `InitOnce` and the happens-before relation `HB` are stated over
*indices* of the trace; `checkTrace`/`checkInitOnce` are the executable checkers that the driver runs on
traces recorded from the real library (hook H2).  Their equivalence with the declarative statements and the
theorem lockset discipline ⇒ data-race freedom are in XV.Lemmas.Trace / XV.Props.C17.

Mutexes are treated as NON-recursive here.  (This build's StdMutexMgr uses std::recursive_mutex; the recorder
collapses a re-entrant acquire/release pair of the owning thread, which does not change which thread owns a
mutex at any point.)
-/
namespace XV.Spec.Trace

abbrev Thread := Nat
abbrev Mutex := Nat
abbrev Resource := Nat
abbrev Site := Nat

inductive Event where
  | acq (t : Thread) (m : Mutex)
  | rel (t : Thread) (m : Mutex)
  /-- access of thread `t` to shared resource `r`; `w = true` for a write -/
  | acc (t : Thread) (r : Resource) (w : Bool)
  | initBegin (t : Thread) (s : Site)
  | initEnd (t : Thread) (s : Site)
  deriving DecidableEq, Repr, Inhabited

def Event.thread : Event → Thread
  | .acq t _ | .rel t _ | .acc t _ _ | .initBegin t _ | .initEnd t _ => t

/-- Thread `t` holds mutex `m` just before position `k`: it acquired `m` at some earlier position and has
not released it since. -/
def Holds (tr : List Event) (t : Thread) (m : Mutex) (k : Nat) : Prop :=
  ∃ a, a < k ∧ tr[a]? = some (.acq t m) ∧ ∀ b, a < b → b < k → tr[b]? ≠ some (.rel t m)

/-- A thread releases only what it holds; a mutex is acquired only when nobody holds it (mutual exclusion,
and in particular no double acquire by the same thread). -/
def WellFormedLocks (tr : List Event) : Prop :=
  (∀ k t m, tr[k]? = some (.rel t m) → Holds tr t m k) ∧
  (∀ k t m, tr[k]? = some (.acq t m) → ∀ t', ¬ Holds tr t' m k)

/-- The mutex an event needs its thread to hold (`g` for resources, `sg` for lazy-initialisation sites). -/
def need (g : Resource → Mutex) (sg : Site → Mutex) : Event → Option (Thread × Mutex)
  | .acc t r _ => some (t, g r)
  | .initBegin t s => some (t, sg s)
  | .initEnd t s => some (t, sg s)
  | _ => none

/-- Lockset discipline: every access (and every initialisation step) happens while its thread holds the
mutex that guards the resource (site). -/
def LocksetOK (g : Resource → Mutex) (sg : Site → Mutex) (tr : List Event) : Prop :=
  ∀ k t m, (tr[k]?).bind (need g sg) = some (t, m) → Holds tr t m k

/-- At most one completed initialisation per site. -/
def InitOnce (tr : List Event) : Prop :=
  ∀ (i j : Nat) (t t' : Thread) (s : Site), tr[i]? = some (Event.initEnd t s) → tr[j]? = some (Event.initEnd t' s) → i = j

/-- Two accesses conflict: same resource, different threads, at least one write. -/
def conflicting (e₁ e₂ : Event) : Prop :=
  ∃ t₁ t₂ r w₁ w₂, e₁ = .acc t₁ r w₁ ∧ e₂ = .acc t₂ r w₂ ∧ t₁ ≠ t₂ ∧ (w₁ = true ∨ w₂ = true)

/-- Happens-before over positions: program order ∪ (release → later acquire of the same mutex), closed
under transitivity. -/
inductive HB (tr : List Event) : Nat → Nat → Prop where
  | po {i j : Nat} {e₁ e₂ : Event} : i < j → tr[i]? = some e₁ → tr[j]? = some e₂ → e₁.thread = e₂.thread → HB tr i j
  | sw {i j : Nat} {t t' : Thread} {m : Mutex} :
      i < j → tr[i]? = some (.rel t m) → tr[j]? = some (.acq t' m) → HB tr i j
  | trans {i j k : Nat} : HB tr i k → HB tr k j → HB tr i j

/-! ### Executable checker -/

inductive Violation where
  | releaseNotHeld (k : Nat) (t : Thread) (m : Mutex)
  | acquireHeld (k : Nat) (t : Thread) (m : Mutex)
  | unguarded (k : Nat) (t : Thread) (m : Mutex)          -- access / init step without the guarding mutex
  | secondInit (k : Nat) (t : Thread) (s : Site)
  deriving DecidableEq, Repr

deriving instance DecidableEq for Except

/-- currently held mutexes with their owner -/
abbrev Held := List (Mutex × Thread)

def stepHeld (h : Held) : Event → Held
  | .acq t m => (m, t) :: h
  | .rel t m => h.filter (fun p => p ≠ (m, t))
  | _ => h

def checkEvent (g : Resource → Mutex) (sg : Site → Mutex) (h : Held) (k : Nat) (e : Event) : Option Violation :=
  match e with
  | .acq t m => if h.all (fun p => p.1 ≠ m) then none else some (.acquireHeld k t m)
  | .rel t m => if (m, t) ∈ h then none else some (.releaseNotHeld k t m)
  | .acc t r _ => if (g r, t) ∈ h then none else some (.unguarded k t (g r))
  | .initBegin t s => if (sg s, t) ∈ h then none else some (.unguarded k t (sg s))
  | .initEnd t s => if (sg s, t) ∈ h then none else some (.unguarded k t (sg s))

def run (g : Resource → Mutex) (sg : Site → Mutex) : Held → Nat → List Event → Except Violation Unit
  | _, _, [] => .ok ()
  | h, k, e :: es =>
    match checkEvent g sg h k e with
    | some v => .error v
    | none => run g sg (stepHeld h e) (k + 1) es

def checkTrace (g : Resource → Mutex) (sg : Site → Mutex) (tr : List Event) : Except Violation Unit :=
  run g sg [] 0 tr

def runInit : List Site → Nat → List Event → Except Violation Unit
  | _, _, [] => .ok ()
  | done, k, .initEnd t s :: es => if s ∈ done then .error (.secondInit k t s) else runInit (s :: done) (k + 1) es
  | done, k, _ :: es => runInit done (k + 1) es

def checkInitOnce (tr : List Event) : Except Violation Unit := runInit [] 0 tr

end XV.Spec.Trace
