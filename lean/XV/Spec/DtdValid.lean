/-
C07 — executable Spec of DTD validity for documents with an internal subset (`validDoc`), and of the
attribute values an XML processor must report (`reportedAttrs`, XML 1.0 §3.3.2/§3.3.3: defaults are
supplied and tokenized types normalised whether or not the processor validates).

Abstract documents: element types, attribute names and attribute-value tokens are `Nat` ids.  An
attribute value is a list of tokens (rendered separated by spaces); tokens `< 90` render as Names
("v<k>"), tokens `≥ 90` render as Nmtokens that are not Names ("9z<k>").

Validity constraints covered (XML 1.0 5th ed.):
  Root Element Type · Element Valid (children ∈ `Lang` of the declared content model — judged by
  `derivMatch`, proved equal to `Lang` in `deriv_iff` —, character data only in mixed/ANY, EMPTY has no
  content, every element declared) · Unique Element Type Declaration · No Duplicate Types (mixed) ·
  Attribute Value Type (declared) · ID (Name, unique) · One ID per Element Type · ID Attribute Default ·
  IDREF/IDREFS (Names, each matches an ID) · Name Token(s) · Enumeration · No Duplicate Tokens ·
  Required Attribute · Attribute Default Value Syntactically Correct · Fixed Attribute Default.
Not modelled here: ENTITY/ENTITIES/NOTATION types, standalone VCs, external subset / PE nesting VCs.

Definitions only; no Mathlib.
-/
import XV.Spec.ContentModel
namespace XV.Spec.DtdValid
open XV.Spec.ContentModel

abbrev Tok := Nat

def isNameTok (t : Tok) : Bool := t < 90

inductive AttType where
  | cdata | id | idref | idrefs | nmtoken | nmtokens
  | enum (vals : List Tok)
  deriving Repr, DecidableEq, Inhabited

inductive Dflt where
  | required | implied
  | fixed (v : List Tok)
  | dflt (v : List Tok)
  deriving Repr, DecidableEq, Inhabited

structure AttDef where
  name : Nat
  type : AttType
  dflt : Dflt
  deriving Repr, DecidableEq, Inhabited

structure ElemDecl where
  name : Name
  content : Spec
  atts : List AttDef
  deriving Repr, Inhabited

structure Attr where
  name : Nat
  value : List Tok
  deriving Repr, DecidableEq, Inhabited

/-- element: type, "has non-white-space character data", specified attributes, child elements -/
inductive Elem where
  | mk (name : Name) (text : Bool) (attrs : List Attr) (children : List Elem)
  deriving Repr, Inhabited

structure Doc where
  doctype : Name
  decls : List ElemDecl
  root : Elem
  deriving Repr, Inhabited

def Elem.name : Elem → Name | .mk n _ _ _ => n
def Elem.text : Elem → Bool | .mk _ t _ _ => t
def Elem.attrs : Elem → List Attr | .mk _ _ a _ => a
def Elem.children : Elem → List Elem | .mk _ _ _ c => c

/-! ### the DTD -/

/-- first declaration of an element type is binding -/
def findDecl (decls : List ElemDecl) (n : Name) : Option ElemDecl := decls.find? (·.name == n)

/-- keep the first definition of each attribute name -/
def dedupAtts : List AttDef → List AttDef → List AttDef
  | [], acc => acc
  | a :: as, acc => if acc.any (·.name == a.name) then dedupAtts as acc else dedupAtts as (acc ++ [a])

/-- all ATTLIST definitions for an element type, first definition of a name binding (§3.3) -/
def effAtts (decls : List ElemDecl) (n : Name) : List AttDef :=
  dedupAtts ((decls.filter (·.name == n)).flatMap (·.atts)) []

def nodup : List Nat → Bool
  | [] => true
  | x :: xs => !xs.contains x && nodup xs

/-- lexical/type constraint violated by a (normalised) attribute value, if any
    (VCs ID, IDREF, Name Token, Enumeration; an enumerated value must be ONE of the declared Nmtokens) -/
def valueViolation (t : AttType) (v : List Tok) : Option String :=
  match t with
  | .cdata => none
  | .id | .idref =>
    match v with
    | [] => some "empty-value"
    | [x] => if isNameTok x then none else some "not-a-name"
    | _ => some "multiple-tokens-for-single-valued-type"
  | .idrefs => if v.isEmpty then some "empty-value" else if v.all isNameTok then none else some "not-a-name"
  | .nmtoken =>
    match v with
    | [] => some "empty-value"
    | [_] => none
    | _ => some "multiple-tokens-for-single-valued-type"
  | .nmtokens => if v.isEmpty then some "empty-value" else none
  | .enum vals =>
    match v with
    | [] => some "empty-value"
    | [x] => if vals.contains x then none else some "enumeration-no-match"
    | _ => if v.all vals.contains then some "enumeration-list-of-members" else some "enumeration-no-match"

def valueOk (t : AttType) (v : List Tok) : Bool := (valueViolation t v).isNone

def dfltValue : Dflt → Option (List Tok)
  | .fixed v => some v
  | .dflt v => some v
  | _ => none

/-- violated DTD-level constraints of one attribute definition -/
def attDefViolations (a : AttDef) : List String :=
  (match a.type, a.dflt with
   | .id, .fixed _ => ["id-attribute-default"]
   | .id, .dflt _ => ["id-attribute-default"]
   | _, _ => []) ++
  (match dfltValue a.dflt with
   | some v => match valueViolation a.type v with
     | none => []
     | some w => ["attribute-default-legal:" ++ w]
   | none => []) ++
  (match a.type with
   | .enum vals => if nodup vals then [] else ["no-duplicate-tokens"]
   | _ => [])

def isIdType : AttType → Bool
  | .id => true
  | _ => false

def dtdViolations (decls : List ElemDecl) : List String :=
  (if nodup (decls.map (·.name)) then [] else ["unique-element-type-declaration"]) ++
  decls.flatMap (fun d =>
    (match d.content with
     | .mixed ns => if nodup ns then [] else ["no-duplicate-types"]
     | _ => []) ++
    (if ((effAtts decls d.name).filter (fun a => isIdType a.type)).length > 1 then ["one-id-per-element-type"] else []) ++
    (effAtts decls d.name).flatMap attDefViolations)

/-! ### the instance -/

/-- attributes as reported: specified ones plus defaults/fixed values of the missing ones
    (`true` = supplied by default) -/
def elemAttrs (decls : List ElemDecl) (e : Elem) : List (Nat × List Tok × Bool) :=
  e.attrs.map (fun a => (a.name, a.value, false)) ++
  (effAtts decls e.name).filterMap (fun d =>
    if e.attrs.any (·.name == d.name) then none
    else match dfltValue d.dflt with
      | some v => some (d.name, v, true)
      | none => none)

def textAllowed : Spec → Bool
  | .mixed _ => true
  | .any => true
  | _ => false

/-- violated constraints local to one element (not counting ID/IDREF cross references) -/
def elemLocalViolations (decls : List ElemDecl) (e : Elem) : List String :=
  let atts := effAtts decls e.name
  (match findDecl decls e.name with
   | none => ["element-not-declared"]
   | some d =>
     (if derivMatch d.content (e.children.map (·.name)) then [] else ["element-content"]) ++
     (if e.text && !textAllowed d.content then ["character-data-not-allowed"] else [])) ++
  e.attrs.flatMap (fun a =>
    match atts.find? (·.name == a.name) with
    | none => ["attribute-not-declared"]
    | some d =>
      (match valueViolation d.type a.value with
       | none => []
       | some w => ["attribute-value-type:" ++ w]) ++
      (match d.dflt with
       | .fixed v => if a.value == v then [] else ["fixed-attribute-default"]
       | _ => [])) ++
  atts.flatMap (fun d =>
    match d.dflt with
    | .required => if e.attrs.any (·.name == d.name) then [] else ["required-attribute"]
    | _ => [])

mutual
  /-- all elements in document (pre-)order -/
  def allElems : Elem → List Elem
    | .mk n t a cs => .mk n t a cs :: allElemsList cs
  def allElemsList : List Elem → List Elem
    | [] => []
    | c :: cs => allElems c ++ allElemsList cs
end

/-- values of the attributes (specified or defaulted) of the given kind over the whole document -/
def tokensOfType (decls : List ElemDecl) (es : List Elem) (p : AttType → Bool) : List Tok :=
  es.flatMap (fun e =>
    (elemAttrs decls e).flatMap (fun (n, v, _) =>
      match (effAtts decls e.name).find? (·.name == n) with
      | some d => if p d.type then v else []
      | none => []))

def isRefType : AttType → Bool
  | .idref => true
  | .idrefs => true
  | _ => false

def violations (d : Doc) : List String :=
  let es := allElems d.root
  let ids := tokensOfType d.decls es isIdType
  let refs := tokensOfType d.decls es isRefType
  dtdViolations d.decls ++
  (if d.root.name == d.doctype then [] else ["root-element-type"]) ++
  es.flatMap (elemLocalViolations d.decls) ++
  (if nodup ids then [] else ["id-unique"]) ++
  (if refs.all (fun r => ids.contains r) then [] else ["idref-resolves"])

/-- the document satisfies all modelled validity constraints -/
def validDoc (d : Doc) : Bool := (violations d).isEmpty

/-- what any processor that read the declarations must report as attributes, per element in document order -/
def reportedAttrs (d : Doc) : List (Name × List (Nat × List Tok × Bool)) :=
  (allElems d.root).map (fun e => (e.name, elemAttrs d.decls e))

end XV.Spec.DtdValid
