/-
C07 — executable Spec of DTD validity for documents with an internal subset (`validDoc`), and of the
attribute values an XML processor must report (`reportedAttrs`, XML 1.0 §3.3.2/§3.3.3: defaults are
supplied and tokenized types normalised whether or not the processor validates).

Abstract documents: element types, attribute names and attribute-value tokens are `Nat` ids.  An
attribute value is a list of tokens (rendered separated by spaces); tokens `< 90` render as Names
("v<k>"), tokens `≥ 90` render as Nmtokens that are not Names ("9z<k>").

Validity constraints covered (XML 1.0 5th ed.):
  Root Element Type · Element Valid (children ∈ `Lang` of the declared content model — judged by
  `derivMatch`, proved equal to `Lang` in `deriv_iff` —, character data only in mixed/ANY, EMPTY has no
  content, every element declared) · Unique Element Type Declaration · No Duplicate Types (mixed) ·
  Attribute Value Type (declared) · ID (Name, unique) · One ID per Element Type · ID Attribute Default ·
  IDREF/IDREFS (Names, each matches an ID) · Entity Name (ENTITY/ENTITIES: Names of declared unparsed entities) · Name Token(s) · Enumeration · No Duplicate Tokens ·
  Required Attribute · Attribute Default Value Syntactically Correct · Fixed Attribute Default.
  Entity Declared (as VC, and as the WFC it becomes for standalone="yes" / no external subset) ·
  Standalone Document Declaration (§2.9): with standalone="yes" no EXTERNALLY declared attribute default
  (plain or #FIXED) may be needed, no externally declared entity referenced, no externally declared attribute
  of tokenized type (ID…NMTOKENS, not enumerations) may have a value that normalisation changes, and no externally declared element-content
  element may directly contain white space.
Declarations carry an `ext` flag (located in the external subset, or in a parameter entity referenced there) and
a `pe` flag (delivered by the replacement text of a parameter entity — internal or external — that is referenced
in the INTERNAL subset).  For §2.9 both kinds are *external markup declarations* ("a markup declaration occurring in
the external subset or in a parameter entity (external or internal …)"): `isExtDecl`.  The internal subset, with
the parameter entities referenced in it, is read before the external one, so its declarations (in document order)
are binding over those of the external subset (§2.8): binding order = `!ext` first.
Not modelled here: NOTATION attribute types, PE nesting VCs (parameter entities always hold complete declarations).

Definitions only; no Mathlib.
-/
import XV.Spec.ContentModel
namespace XV.Spec.DtdValid
open XV.Spec.ContentModel

abbrev Tok := Nat

def isNameTok (t : Tok) : Bool := t < 90

inductive AttType where
  | cdata | id | idref | idrefs | nmtoken | nmtokens | entity | entities
  | enum (vals : List Tok)
  deriving Repr, DecidableEq, Inhabited

inductive Dflt where
  | required | implied
  | fixed (v : List Tok)
  | dflt (v : List Tok)
  deriving Repr, DecidableEq, Inhabited

structure AttDef where
  name : Nat
  type : AttType
  dflt : Dflt
  ext : Bool := false          -- declared in the external subset
  pe : Bool := false           -- delivered by a parameter entity referenced in the internal subset
  deriving Repr, DecidableEq, Inhabited

/-- `<!ELEMENT name content>` (in the subset given by `ext`) together with attribute definitions for
    the element type (each in the subset given by its own `ext`) -/
structure ElemDecl where
  name : Name
  content : Spec
  atts : List AttDef
  ext : Bool := false
  pe : Bool := false
  deriving Repr, Inhabited

/-- internal general entity `<!ENTITY name "t">` (non-empty character data) -/
structure EntDecl where
  name : Nat
  ext : Bool := false
  pe : Bool := false
  deriving Repr, DecidableEq, Inhabited

/-- `padded`: the value is written with leading/trailing/doubled spaces, i.e. normalisation as a tokenized
    type gives a different value than CDATA normalisation -/
structure Attr where
  name : Nat
  value : List Tok
  padded : Bool := false
  deriving Repr, DecidableEq, Inhabited

/-- element content besides the child elements: non-white-space character data, white space, entity references -/
structure Extra where
  text : Bool := false
  ws : Bool := false
  refs : List Nat := []
  deriving Repr, DecidableEq, Inhabited

inductive Elem where
  | mk (name : Name) (x : Extra) (attrs : List Attr) (children : List Elem)
  deriving Repr, Inhabited

structure Doc where
  doctype : Name
  decls : List ElemDecl
  root : Elem
  standalone : Bool := false     -- standalone="yes"
  hasExt : Bool := false         -- the DOCTYPE has an external subset
  unparsed : List Tok := []      -- names (tokens) of the declared unparsed entities (`<!ENTITY v SYSTEM … NDATA n>`)
  ents : List EntDecl := []
  deriving Repr, Inhabited

def Elem.name : Elem → Name | .mk n _ _ _ => n
def Elem.x : Elem → Extra | .mk _ x _ _ => x
def Elem.text (e : Elem) : Bool := e.x.text
def Elem.attrs : Elem → List Attr | .mk _ _ a _ => a
def Elem.children : Elem → List Elem | .mk _ _ _ c => c

/-! ### the DTD -/

/-- first declaration of an element type is binding; the internal subset is read first -/
def findDecl (decls : List ElemDecl) (n : Name) : Option ElemDecl :=
  match decls.find? (fun d => d.name == n && !d.ext) with
  | some d => some d
  | none => decls.find? (·.name == n)

/-- keep the first definition of each attribute name -/
def dedupAtts : List AttDef → List AttDef → List AttDef
  | [], acc => acc
  | a :: as, acc => if acc.any (·.name == a.name) then dedupAtts as acc else dedupAtts as (acc ++ [a])

/-- all ATTLIST definitions for an element type, first definition of a name binding (§3.3) -/
def effAtts (decls : List ElemDecl) (n : Name) : List AttDef :=
  let all := (decls.filter (·.name == n)).flatMap (·.atts)
  dedupAtts (all.filter (!·.ext) ++ all.filter (·.ext)) []

/-- external markup declaration in the sense of §2.9 -/
def AttDef.isExtDecl (d : AttDef) : Bool := d.ext || d.pe
def ElemDecl.isExtDecl (d : ElemDecl) : Bool := d.ext || d.pe
def EntDecl.isExtDecl (d : EntDecl) : Bool := d.ext || d.pe

/-- binding declaration of a general entity -/
def findEnt (ents : List EntDecl) (n : Nat) : Option EntDecl :=
  match ents.find? (fun d => d.name == n && !d.ext) with
  | some d => some d
  | none => ents.find? (·.name == n)

def nodup : List Nat → Bool
  | [] => true
  | x :: xs => !xs.contains x && nodup xs

/-- lexical/type constraint violated by a (normalised) attribute value, if any
    (VCs ID, IDREF, Name Token, Enumeration; an enumerated value must be ONE of the declared Nmtokens) -/
def valueViolation (t : AttType) (v : List Tok) : Option String :=
  match t with
  | .cdata => none
  | .id | .idref | .entity =>
    match v with
    | [] => some "empty-value"
    | [x] => if isNameTok x then none else some "not-a-name"
    | _ => some "multiple-tokens-for-single-valued-type"
  | .idrefs | .entities => if v.isEmpty then some "empty-value" else if v.all isNameTok then none else some "not-a-name"
  | .nmtoken =>
    match v with
    | [] => some "empty-value"
    | [_] => none
    | _ => some "multiple-tokens-for-single-valued-type"
  | .nmtokens => if v.isEmpty then some "empty-value" else none
  | .enum vals =>
    match v with
    | [] => some "empty-value"
    | [x] => if vals.contains x then none else some "enumeration-no-match"
    | _ => if v.all vals.contains then some "enumeration-list-of-members" else some "enumeration-no-match"

def valueOk (t : AttType) (v : List Tok) : Bool := (valueViolation t v).isNone

def dfltValue : Dflt → Option (List Tok)
  | .fixed v => some v
  | .dflt v => some v
  | _ => none

/-- violated DTD-level constraints of one attribute definition -/
def attDefViolations (a : AttDef) : List String :=
  (match a.type, a.dflt with
   | .id, .fixed _ => ["id-attribute-default"]
   | .id, .dflt _ => ["id-attribute-default"]
   | _, _ => []) ++
  (match dfltValue a.dflt with
   | some v => match valueViolation a.type v with
     | none => []
     | some w => ["attribute-default-legal:" ++ w]
   | none => []) ++
  (match a.type with
   | .enum vals => if nodup vals then [] else ["no-duplicate-tokens"]
   | _ => [])

def isIdType : AttType → Bool
  | .id => true
  | _ => false

def dtdViolations (decls : List ElemDecl) : List String :=
  (if nodup (decls.map (·.name)) then [] else ["unique-element-type-declaration"]) ++
  decls.flatMap (fun d =>
    (match d.content with
     | .mixed ns => if nodup ns then [] else ["no-duplicate-types"]
     | _ => []) ++
    (if ((effAtts decls d.name).filter (fun a => isIdType a.type)).length > 1 then ["one-id-per-element-type"] else []) ++
    (effAtts decls d.name).flatMap attDefViolations)

/-! ### the instance -/

/-- attributes as reported: specified ones plus defaults/fixed values of the missing ones
    (`true` = supplied by default) -/
def elemAttrs (decls : List ElemDecl) (e : Elem) : List (Nat × List Tok × Bool) :=
  e.attrs.map (fun a => (a.name, a.value, false)) ++
  (effAtts decls e.name).filterMap (fun d =>
    if e.attrs.any (·.name == d.name) then none
    else match dfltValue d.dflt with
      | some v => some (d.name, v, true)
      | none => none)

def textAllowed : Spec → Bool
  | .mixed _ => true
  | .any => true
  | _ => false

def isChildren : Spec → Bool
  | .children _ => true
  | _ => false

def isCdata : AttType → Bool
  | .cdata => true
  | _ => false

/-- the *TokenizedType* production of §3.3.1 (enumerated types are a separate production; §2.9 names
    "attributes with tokenized types" only) -/
def isTokenized : AttType → Bool
  | .id | .idref | .idrefs | .nmtoken | .nmtokens | .entity | .entities => true
  | _ => false

/-- violated constraints local to one element (not counting ID/IDREF cross references) -/
def elemLocalViolations (decls : List ElemDecl) (e : Elem) : List String :=
  let atts := effAtts decls e.name
  (match findDecl decls e.name with
   | none => ["element-not-declared"]
   | some d =>
     (if derivMatch d.content (e.children.map (·.name)) then [] else ["element-content"]) ++
     (if (e.x.text || !e.x.refs.isEmpty) && !textAllowed d.content then ["character-data-not-allowed"] else []) ++
     (if e.x.ws && d.content == .empty then ["empty-element-has-content"] else [])) ++
  e.attrs.flatMap (fun a =>
    match atts.find? (·.name == a.name) with
    | none => ["attribute-not-declared"]
    | some d =>
      (match valueViolation d.type a.value with
       | none => []
       | some w => ["attribute-value-type:" ++ w]) ++
      (match d.dflt with
       | .fixed v => if a.value == v && !(a.padded && isCdata d.type) then [] else ["fixed-attribute-default"]
       | _ => [])) ++
  atts.flatMap (fun d =>
    match d.dflt with
    | .required => if e.attrs.any (·.name == d.name) then [] else ["required-attribute"]
    | _ => [])

/-- VC Standalone Document Declaration (§2.9), the three clauses that are validity constraints only -/
def standaloneViolations (decls : List ElemDecl) (e : Elem) : List String :=
  let atts := effAtts decls e.name
  atts.flatMap (fun d =>
    if d.isExtDecl && (dfltValue d.dflt).isSome && !e.attrs.any (·.name == d.name)
    then ["standalone:externally-declared-default-needed"] else []) ++
  e.attrs.flatMap (fun a =>
    match atts.find? (·.name == a.name) with
    | some d => if d.isExtDecl && isTokenized d.type && a.padded then ["standalone:externally-declared-attribute-normalised"] else []
    | none => []) ++
  (match findDecl decls e.name with
   | some d => if d.isExtDecl && isChildren d.content && e.x.ws
               then ["standalone:white-space-in-externally-declared-element-content"] else []
   | none => [])

/-- entity references of one element: `(wf, vc)` violation classes.  An undeclared entity is a
    well-formedness error when the document is standalone or has neither an external subset nor parameter
    entity references, a validity error otherwise (§4.1); in a standalone document a reference to an entity whose
    binding declaration is external is a well-formedness error (WFC Entity Declared). -/
def usesPE (d : Doc) : Bool :=
  d.decls.any (fun x => x.pe || x.atts.any (·.pe)) || d.ents.any (·.pe)

def entityViolations (d : Doc) (e : Elem) : List String × List String :=
  e.x.refs.foldl (fun (acc : List String × List String) r =>
    match findEnt d.ents r with
    | none => if d.standalone || (!d.hasExt && !usesPE d) then (acc.1 ++ ["entity-declared"], acc.2)
              else (acc.1, acc.2 ++ ["entity-declared"])
    | some ed => if d.standalone && ed.isExtDecl then
                   (acc.1 ++ [if ed.ext then "entity-declared-externally-in-standalone-document"
                              else "entity-declared-in-parameter-entity-in-standalone-document"], acc.2)
                 else acc) ([], [])

mutual
  /-- all elements in document (pre-)order -/
  def allElems : Elem → List Elem
    | .mk n x a cs => .mk n x a cs :: allElemsList cs
  def allElemsList : List Elem → List Elem
    | [] => []
    | c :: cs => allElems c ++ allElemsList cs
end

/-- values of the attributes (specified or defaulted) of the given kind over the whole document -/
def tokensOfType (decls : List ElemDecl) (es : List Elem) (p : AttType → Bool) : List Tok :=
  es.flatMap (fun e =>
    (elemAttrs decls e).flatMap (fun (n, v, _) =>
      match (effAtts decls e.name).find? (·.name == n) with
      | some d => if p d.type then v else []
      | none => []))

def isRefType : AttType → Bool
  | .idref => true
  | .idrefs => true
  | _ => false

def isEntityType : AttType → Bool
  | .entity => true
  | .entities => true
  | _ => false

/-- violated well-formedness constraints (only WFC Entity Declared can be violated by an abstract document) -/
def wfViolations (d : Doc) : List String :=
  (allElems d.root).flatMap (fun e => (entityViolations d e).1)

def violations (d : Doc) : List String :=
  let es := allElems d.root
  let ids := tokensOfType d.decls es isIdType
  let refs := tokensOfType d.decls es isRefType
  let entNames := tokensOfType d.decls es isEntityType
  dtdViolations d.decls ++
  (if d.root.name == d.doctype then [] else ["root-element-type"]) ++
  es.flatMap (elemLocalViolations d.decls) ++
  (if nodup ids then [] else ["id-unique"]) ++
  (if refs.all (fun r => ids.contains r) then [] else ["idref-resolves"]) ++
  es.flatMap (fun e => (entityViolations d e).2) ++
  (if d.standalone then es.flatMap (standaloneViolations d.decls) else []) ++
  (if entNames.all (fun r => d.unparsed.contains r) then [] else ["entity-name"])

/-- the document is well-formed and satisfies all modelled validity constraints -/
def validDoc (d : Doc) : Bool := (wfViolations d).isEmpty && (violations d).isEmpty

/-- what any processor that read the declarations must report per element in document order: attributes
    (value, supplied-by-default flag, "written padded and not normalised as a tokenized type" flag) and the
    number of character-data items (own text and declared entity references, each expanding to one character) -/
def reportedAttrs (d : Doc) : List (Name × List (Nat × List Tok × Bool × Bool) × Nat) :=
  (allElems d.root).map (fun e =>
    let atts := effAtts d.decls e.name
    (e.name,
     (elemAttrs d.decls e).map (fun (n, v, dfl) =>
        let rawPadded := !dfl && (e.attrs.any (fun a => a.name == n && a.padded)) &&
          (match atts.find? (·.name == n) with
           | some ad => isCdata ad.type
           | none => true)
        (n, v, dfl, rawPadded)),
     (if e.x.text then 1 else 0) + (e.x.refs.filter (fun r => (findEnt d.ents r).isSome)).length))

end XV.Spec.DtdValid
