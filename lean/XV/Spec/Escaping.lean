/-
Spec of the formatter's output: the REFERENCE ESCAPING.  `escUnits cd cfg esc s` is what
`XMLFormatter::formatBuf(s, …, esc, UnRep_CharRef)` has to hand to the transcoder, stated as a plain function of
the input (no buffers, no runs, no blocks): a unit is replaced by a reference iff the escape row / the XML 1.1
rule selects it or the encoding cannot represent it; an unrepresentable surrogate pair becomes ONE reference.
The bytes written must be `encode (escUnits …)`.  XV.Props.C12 proves that the code-shaped model writes exactly
this (formatBuf_writes) and that the XML reader turns it back into the input (escape_sufficient_*); the check
judges the real XMLFormatter's decoded output against this function directly (driver op `ES`), whatever the model
does.  Definitions only; no Mathlib.
-/
import XV.Model.Formatter
namespace XV.Spec.Escaping
open XV.Model.Formatter XV.Gen.Escapes

def refText (c : Nat) : List Nat :=
  if c = 38 then gAmpRef else if c = 39 then gAposRef else if c = 34 then gQuoteRef
  else if c = 62 then gGTRef else if c = 60 then gLTRef else charRefText c

/-- is `c` written as a reference in escape mode `esc`? (NoEscapes never consults the table) -/
def escd (cfg : Cfg) (esc : EscapeFlags) (c : Nat) : Bool := esc != .NoEscapes && inEscapeList cfg esc c

def escPlain (cfg : Cfg) (esc : EscapeFlags) (l : List Nat) : List Nat :=
  l.flatMap (fun c => if escd cfg esc c then refText c else [c])

def escUnits (cd : Coder) (cfg : Cfg) (esc : EscapeFlags) : List Nat → List Nat
  | [] => []
  | [c] =>
    if cd.rep c then (if escd cfg esc c then refText c else [c])
    else if isHigh c then charRefText (pairRef c 0) else charRefText c
  | c :: n :: t =>
    if cd.rep c then (if escd cfg esc c then refText c else [c]) ++ escUnits cd cfg esc (n :: t)
    else if isHigh c then charRefText (pairRef c n) ++ escUnits cd cfg esc t
    else charRefText c ++ escUnits cd cfg esc (n :: t)

end XV.Spec.Escaping
