/- Declarative, executable specification of XML Schema 1.0 identity constraints (Structures §3.11):
   instance trees, the selector/field XPath subset as data, typed values compared in the value space,
   node tables with upward propagation (§3.11.5), `ICValid` and the executable `icCheck`.
   No Mathlib.  This file is part of the trusted base: it is what a reviewer reads. -/
import XV.Gen.ValidityCodes
namespace XV.Spec.Identity
open XV.Gen.ValidityCodes

/-! ## Names, node tests, steps, paths -/

structure QName where
  ns : Nat
  loc : Nat
deriving DecidableEq, Repr, Inhabited

/-- `*`, `p:*`, `p:l` -/
inductive NameTest where
  | any
  | ns (n : Nat)
  | name (q : QName)
deriving DecidableEq, Repr, Inhabited

def NameTest.ok : NameTest → QName → Bool
  | .any, _ => true
  | .ns n, q => decide (q.ns = n)
  | .name a, q => decide (a = q)

/-- `.`  `.//` (descendant-or-self::node())  `child::t`  `attribute::t` -/
inductive Step where
  | self
  | desc
  | child (t : NameTest)
  | attr (t : NameTest)
deriving DecidableEq, Repr, Inhabited

abbrev Path := List Step
/-- a union `p1 | p2 | …` -/
abbrev XPath := List Path

/-- `f` holds of some suffix of the chain (the empty suffix included) -/
def anySuffix (f : List QName → Bool) : List QName → Bool
  | [] => f []
  | q :: c => f (q :: c) || anySuffix f c

/-- Does the path, evaluated at a context element, select the node reached from the context through the chain of
    element names `c` (top-down, context excluded, target element included) — the element itself when `tgt = none`,
    its attribute `a` when `tgt = some a`?  XPath 1.0 semantics of the subset. -/
def pathMatches : Path → List QName → Option QName → Bool
  | [], c, tgt => c.isEmpty && tgt.isNone
  | .self :: p, c, tgt => pathMatches p c tgt
  | .desc :: p, c, tgt => anySuffix (fun c' => pathMatches p c' tgt) c
  | .child t :: p, c, tgt =>
      match c with
      | [] => false
      | q :: c' => t.ok q && pathMatches p c' tgt
  | .attr t :: p, c, tgt =>
      c.isEmpty && p.isEmpty && (match tgt with | some a => t.ok a | none => false)

def xpathMatches (xp : XPath) (c : List QName) (tgt : Option QName) : Bool :=
  xp.any (fun p => pathMatches p c tgt)

/-! ## Typed values (value spaces of the six field types) -/

inductive Ty where
  | string | token | integer | decimal | date | qname
deriving DecidableEq, Repr, Inhabited

/-- Members of the value spaces.  Decimals are kept normalised (`scale = 0 ∨ 10 ∤ m`), dates with a timezone are the
    starting instant in minutes on the UTC timeline, dates without one the local starting minute (XSD 1.0: the two
    kinds are never equal); hence equality of values is structural equality. -/
inductive Val where
  | str (s : List Nat)
  | dec (m : Int) (scale : Nat)
  | date (zoned : Bool) (minutes : Int)
  | qname (ns : Nat) (loc : List Nat)
  /-- the (absent) [schema normalized value] of a nilled element: XSD 1.0 leaves its equality open; it is taken to be
      equal to itself only -/
  | nilled
deriving DecidableEq, Repr, Inhabited

/-- strip trailing fractional zeros: the value `m / 10^s` is unchanged -/
def normDec : Int → Nat → Int × Nat
  | m, 0 => (m, 0)
  | m, s + 1 => if m % 10 = 0 then normDec (m / 10) s else (m, s + 1)

/-- value equality of decimals given as mantissa and scale -/
def decValEq (m1 : Int) (s1 : Nat) (m2 : Int) (s2 : Nat) : Prop := m1 * 10 ^ s2 = m2 * 10 ^ s1

def isDigit (c : Nat) : Bool := 48 ≤ c && c ≤ 57
def isWS (c : Nat) : Bool := c == 32 || c == 9 || c == 10 || c == 13

def digitsVal : List Nat → Nat → Nat
  | [], acc => acc
  | c :: cs, acc => digitsVal cs (acc * 10 + (c - 48))

/-- whitespace `collapse` (XSD Datatypes §4.3.6) -/
def collapseAux : List Nat → Bool → List Nat
  | [], _ => []
  | c :: cs, pendingSpace =>
      if isWS c then collapseAux cs true
      else (if pendingSpace then [32, c] else [c]) ++ collapseAux cs false

def collapse (cs : List Nat) : List Nat :=
  match collapseAux cs false with
  | 32 :: r => r      -- leading run
  | r => r

/-- `(+|-)? (digits+ ('.' digits*)? | '.' digits+)` on a whitespace-collapsed lexical form -/
def parseDecimal (cs : List Nat) : Option (Int × Nat) :=
  let (neg, body) := match cs with
    | 45 :: r => (true, r)
    | 43 :: r => (false, r)
    | r => (false, r)
  let ip := body.takeWhile isDigit
  let rest := body.dropWhile isDigit
  let fp := match rest with
    | 46 :: r => some r
    | [] => some []
    | _ => none
  match fp with
  | none => none
  | some f =>
    if f.all isDigit && (ip.length + f.length > 0) then
      let m : Int := (digitsVal (ip ++ f) 0 : Nat)
      some (if neg then -m else m, f.length)
    else none

def parseInteger (cs : List Nat) : Option (Int × Nat) :=
  match parseDecimal cs with
  | some (m, 0) => if cs.all (fun c => c != 46) then some (m, 0) else none
  | _ => none

/-- days from 0001-01-01 (proleptic Gregorian), year ≥ 1 -/
def daysBeforeYear (y : Nat) : Nat :=
  let p := y - 1
  p * 365 + p / 4 - p / 100 + p / 400

def isLeap (y : Nat) : Bool := (y % 4 == 0 && y % 100 != 0) || y % 400 == 0

def daysBeforeMonth (y m : Nat) : Nat :=
  let cum := [0, 31, 59, 90, 120, 151, 181, 212, 243, 273, 304, 334]
  cum.getD (m - 1) 0 + (if m > 2 && isLeap y then 1 else 0)

def twoDigits : List Nat → Option Nat
  | [a, b] => if isDigit a && isDigit b then some ((a - 48) * 10 + (b - 48)) else none
  | _ => none

/-- `YYYY-MM-DD` with optional `Z` / `(+|-)hh:mm` on a whitespace-collapsed lexical form -/
def parseDate (cs : List Nat) : Option (Bool × Int) :=
  let y := cs.take 4
  let r := cs.drop 4
  if !(y.length == 4 && y.all isDigit) then none else
  match r with
  | 45 :: m1 :: m2 :: 45 :: d1 :: d2 :: tz =>
    match twoDigits [m1, m2], twoDigits [d1, d2] with
    | some mo, some d =>
      let yy := digitsVal y 0
      if yy == 0 || mo == 0 || mo > 12 || d == 0 || d > 31 then none else
      let days : Int := ((daysBeforeYear yy + daysBeforeMonth yy mo + (d - 1) : Nat) : Int)
      match tz with
      | [] => some (false, days * 1440)
      | [90] => some (true, days * 1440)
      | s :: h1 :: h2 :: 58 :: n1 :: n2 :: [] =>
        match twoDigits [h1, h2], twoDigits [n1, n2] with
        | some h, some n =>
          let off : Int := ((h * 60 + n : Nat) : Int)
          if s == 43 then some (true, days * 1440 - off)
          else if s == 45 then some (true, days * 1440 + off)
          else none
        | _, _ => none
      | _ => none
    | _, _ => none
  | _ => none

/-- the `whiteSpace` facet of the type applied to a lexical form: `preserve` for string, `collapse` otherwise -/
def wsNorm (ty : Ty) (lex : List Nat) : List Nat :=
  match ty with
  | .string => lex
  | _ => collapse lex

/-- the value denoted by a whitespace-normalised lexical form (`ns`: the resolved namespace of a QName's prefix) -/
def valueOfNorm (ty : Ty) (lex : List Nat) (ns : Nat) : Option Val :=
  match ty with
  | .string => some (.str lex)
  | .token => some (.str lex)
  | .integer => (parseInteger lex).map fun p => let n := normDec p.1 p.2; .dec n.1 n.2
  | .decimal => (parseDecimal lex).map fun p => let n := normDec p.1 p.2; .dec n.1 n.2
  | .date => (parseDate lex).map fun p => .date p.1 p.2
  | .qname => some (.qname ns lex)

/-- the value denoted by a lexical form of a type -/
def valueOf (ty : Ty) (lex : List Nat) (ns : Nat) : Option Val := valueOfNorm ty (wsNorm ty lex) ns

/-- a typed lexical value as it stands in the instance (raw: before whitespace normalisation) -/
structure TV where
  ty : Ty
  lex : List Nat
  ns : Nat := 0
deriving DecidableEq, Repr, Inhabited

def TV.val (v : TV) : Option Val := valueOf v.ty v.lex v.ns

/-! ## Instance trees -/

inductive Node where
  | mk (id : Nat) (name : QName) (nillable : Bool) (nil : Bool) (attrs : List (QName × TV)) (text : Option TV)
       (kids : List Node)
deriving Repr, Inhabited

def Node.id : Node → Nat | .mk i _ _ _ _ _ _ => i
def Node.name : Node → QName | .mk _ n _ _ _ _ _ => n
def Node.nillable : Node → Bool | .mk _ _ b _ _ _ _ => b
def Node.nil : Node → Bool | .mk _ _ _ b _ _ _ => b
def Node.attrs : Node → List (QName × TV) | .mk _ _ _ _ a _ _ => a
def Node.text : Node → Option TV | .mk _ _ _ _ _ t _ => t
def Node.kids : Node → List Node | .mk _ _ _ _ _ _ k => k

mutual
/-- every descendant-or-self element with its chain of names below the context, in document order -/
def Node.descs : Node → List (List QName × Node)
  | .mk i n a b ats tx kids => ([], .mk i n a b ats tx kids) :: descsKids kids
def descsKids : List Node → List (List QName × Node)
  | [] => []
  | k :: ks => (k.descs.map fun p => (k.name :: p.1, p.2)) ++ descsKids ks
end

/-- the target node set of a selector at a context element -/
def select (xp : XPath) (ctx : Node) : List Node :=
  (ctx.descs.filter fun p => xpathMatches xp p.1 none).map (·.2)

/-- a node a field evaluates to -/
inductive Hit where
  | elem (n : Node)
  | attr (v : TV)
deriving Repr, Inhabited

/-- the node set a field evaluates to at a selected element -/
def fieldHits (xp : XPath) (t : Node) : List Hit :=
  t.descs.flatMap fun p =>
    (if xpathMatches xp p.1 none then [Hit.elem p.2] else []) ++
    ((p.2.attrs.filter fun a => xpathMatches xp p.1 (some a.1)).map fun a => Hit.attr a.2)

/-- the [schema normalized value] as a member of the value space -/
def Hit.value : Hit → Option Val
  | .elem n => if n.nil then some .nilled else n.text.bind TV.val
  | .attr v => v.val

def Hit.nillable : Hit → Bool
  | .elem n => n.nillable
  | .attr _ => false

/-! ## Identity-constraint definitions -/

inductive Kind where
  | unique
  | key
  | keyref (refer : Nat)
deriving DecidableEq, Repr, Inhabited

structure IC where
  id : Nat
  kind : Kind
  /-- the element declaration (by name) whose {identity-constraint definitions} contain it -/
  scope : QName
  sel : XPath
  fields : List XPath
deriving Repr, Inhabited

/-- the evaluation of the fields at one member of the target node set -/
structure Row where
  node : Nat
  hits : List (List Hit)
deriving Repr, Inhabited

def Row.multi (r : Row) : Bool := r.hits.any fun h => decide (h.length > 1)
def Row.vals (r : Row) : List (Option Val) :=
  r.hits.map fun h => match h with | [x] => x.value | _ => none
def Row.nillableHit (r : Row) : Bool := r.hits.any fun h => h.any Hit.nillable

def allSome : List (Option Val) → Option (List Val)
  | [] => some []
  | none :: _ => none
  | some v :: r => (allSome r).map (v :: ·)

/-- key-sequence of a row, when every field evaluates to exactly one node with a value -/
def Row.tuple (r : Row) : Option (List Val) := if r.multi then none else allSome r.vals

def rows (ic : IC) (e : Node) : List Row :=
  (select ic.sel e).map fun t => { node := t.id, hits := ic.fields.map fun f => fieldHits f t }

/-- the qualified node set: (key-sequence, node) -/
def entries (ic : IC) (e : Node) : List (List Val × Nat) :=
  (rows ic e).filterMap fun r => r.tuple.map fun t => (t, r.node)

/-- some two distinct positions carry the same tuple -/
def hasDup : List (List Val) → Bool
  | [] => false
  | t :: r => r.contains t || hasDup r

/-- an entry conflicts with a list of entries: same key-sequence, distinct node -/
def conflicts (e : List Val × Nat) (l : List (List Val × Nat)) : Bool :=
  l.any fun e' => decide (e'.1 = e.1) && decide (e'.2 ≠ e.2)

mutual
/-- §3.11.5 node table of a key/unique definition at an element: the element's own qualified node set, plus the
    entries of its children's tables that conflict with no other entry -/
def table (k : IC) : Node → List (List Val × Nat)
  | .mk i n a b ats tx kids =>
      let own := if k.scope = n then entries k (.mk i n a b ats tx kids) else []
      let fromKids := tableKids k kids
      own ++ fromKids.filter fun e => !(conflicts e (own ++ fromKids))
def tableKids (k : IC) : List Node → List (List Val × Nat)
  | [] => []
  | c :: cs => table k c ++ tableKids k cs
end

/-- the element has an identity-constraint binding for `k`: `k` is declared on it or on a descendant -/
def tableExists (k : IC) (e : Node) : Bool := e.descs.any fun p => decide (p.2.name = k.scope)

def findIC (cs : List IC) (id : Nat) : Option IC := cs.find? fun c => c.id == id

/-- violation classes (XMLValid code values, from the generated table) of one definition at one scope element -/
def violationsAt (cs : List IC) (ic : IC) (e : Node) : List Nat :=
  let rs := rows ic e
  let tuples := (entries ic e).map (·.1)
  (if rs.any Row.multi then [IC_FieldMultipleMatch] else []) ++
  (match ic.kind with
   | .unique => if hasDup tuples then [IC_DuplicateUnique] else []
   | .key =>
      (if rs.any (fun r => !r.multi && r.vals.all Option.isNone) then [IC_AbsentKeyValue] else []) ++
      (if rs.any (fun r => !r.multi && r.vals.any Option.isNone && r.vals.any Option.isSome) then [IC_KeyNotEnoughValues] else []) ++
      (if rs.any Row.nillableHit then [IC_KeyMatchesNillable] else []) ++
      (if hasDup tuples then [IC_DuplicateKey] else [])
   | .keyref refer =>
      match findIC cs refer with
      | none => if tuples.isEmpty then [] else [IC_KeyRefOutOfScope]
      | some k =>
        if tuples.isEmpty then []
        else if !tableExists k e then [IC_KeyRefOutOfScope]
        else if tuples.any (fun t => !((table k e).map (·.1)).contains t) then [IC_KeyNotFound] else [])

/-- every (definition id, violation class) of the instance, scope elements in document order -/
def icCheck (cs : List IC) (root : Node) : List (Nat × Nat) :=
  root.descs.flatMap fun p =>
    cs.flatMap fun ic => if ic.scope = p.2.name then (violationsAt cs ic p.2).map fun v => (ic.id, v) else []

/-! ## The declarative statement -/

/-- pairwise distinct tuples -/
def Distinct (ts : List (List Val)) : Prop := ts.Pairwise (· ≠ ·)

/-- one definition holds at one scope element (cvc-identity-constraint, clauses 3 and 4) -/
def HoldsAt (cs : List IC) (ic : IC) (e : Node) : Prop :=
  (∀ r ∈ rows ic e, ∀ h ∈ r.hits, h.length ≤ 1) ∧
  match ic.kind with
  | .unique => Distinct ((entries ic e).map (·.1))
  | .key =>
      (∀ r ∈ rows ic e, (∀ v ∈ r.vals, v ≠ none) ∧ r.nillableHit = false) ∧ Distinct ((entries ic e).map (·.1))
  | .keyref refer =>
      ∀ t ∈ (entries ic e).map (·.1),
        ∃ k, findIC cs refer = some k ∧ tableExists k e = true ∧ ∃ ent ∈ table k e, ent.1 = t

/-- the instance is valid with respect to every identity-constraint definition of the schema -/
def ICValid (cs : List IC) (root : Node) : Prop :=
  ∀ p ∈ root.descs, ∀ ic ∈ cs, ic.scope = p.2.name → HoldsAt cs ic p.2

end XV.Spec.Identity
