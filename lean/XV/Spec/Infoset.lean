/-
C03 — what an XML processor must report for a document: the event stream `infoset : Doc → List Event` over C02's
concrete syntax tree `Doc`, and the adapters through which the four APIs see that stream.

Transcribed rules (XML 1.0 5th ed. / XML 1.1 2nd ed.):
  §2.11  line ends: CR LF and lone CR become LF (1.1: also CR NEL, NEL, LS) in the document entity — `eol`;
         NOT applied again to the replacement text of internal entities.
  §3.3.3 attribute-value normalisation — `attNorm`: character references survive, literal white space becomes a
         space, entity replacement text is processed recursively, non-CDATA types are trimmed and collapsed (#x20 only).
  §3.3.2 attribute defaults declared in the internal subset are supplied (`specified = false`); the first declaration
         of an attribute binds (§3.3).
  §4.4/§4.5 references: character references and the predefined entities yield characters; an internal general entity
         yields the events of its replacement text, between `startEntity`/`endEntity`.
  §2.4/§2.7 character data and CDATA sections; §2.5 comments; §2.6 PIs ("MUST be passed through"), also those of the
         internal subset; §2.8 DOCTYPE; §4.2 entity declarations (first declaration binds); §4.7 notations.
  §2.10  white space in element content (only known when the element type is declared with element content) is reported
         as `ignorableWhitespace`; `nonValidating` is the view of a processor that does not classify.
  Line numbers (SAX `Locator` convention: position of the first character AFTER the construct): `line` = 1 + the number
  of normalised line ends in the document text up to the end of the construct; events that come out of an internal
  entity carry the line of the end of the reference (the position in the enclosing external entity).

Definitions only; no Mathlib.  Theorems: XV.Props.C03.
-/
import XV.Spec.Xml
namespace XV.Spec.Infoset
open XV.Spec.Xml XV.Spec.XmlChar

/-! ### §2.11 end-of-line handling -/

def chCR : Char := '\r'
def chLF : Char := '\n'
def chNEL : Char := Char.ofNat 0x85
def chLS : Char := Char.ofNat 0x2028

/-- one character of the rule, reading left to right and remembering whether the previous input character was a CR:
    the character passed on (if any) and the new memory.
    CR → LF;  LF (1.1: or NEL) right after a CR → nothing;  1.1: NEL, LS → LF;  anything else → itself. -/
def eolStep (v11 : Bool) (prevCR : Bool) (c : Char) : Option Char × Bool :=
  if c == chCR then (some chLF, true)
  else if prevCR && (c == chLF || (v11 && c == chNEL)) then (none, false)
  else if v11 && (c == chNEL || c == chLS) then (some chLF, false)
  else (some c, false)

def eolFrom (v11 : Bool) : Bool → Str → Str
  | _, [] => []
  | prevCR, c :: t =>
    match (eolStep v11 prevCR c).1 with
    | some d => d :: eolFrom v11 (eolStep v11 prevCR c).2 t
    | none => eolFrom v11 (eolStep v11 prevCR c).2 t

/-- the text of an external parsed entity as the parser sees it -/
def eol (v11 : Bool) (s : Str) : Str := eolFrom v11 false s

/-- the same rule on the literal characters of a quoted literal; a reference separates two runs of literal text -/
def eolPieces (v11 : Bool) : Bool → List AttPiece → List AttPiece
  | _, [] => []
  | prevCR, .ch c :: t =>
    match (eolStep v11 prevCR c).1 with
    | some d => .ch d :: eolPieces v11 (eolStep v11 prevCR c).2 t
    | none => eolPieces v11 (eolStep v11 prevCR c).2 t
  | _, .cref r :: t => .cref r :: eolPieces v11 false t
  | _, .eref n :: t => .eref n :: eolPieces v11 false t

/-! ### line counting -/

/-- position in the document entity: current line (1-based) and whether the last character read was a CR -/
structure LineSt where
  line : Nat
  prevCR : Bool
  deriving DecidableEq, Repr, Inhabited

def LineSt.init : LineSt := ⟨1, false⟩

/-- read one character: the line counter advances exactly when the rule passes on a line end -/
def LineSt.step (v11 : Bool) (st : LineSt) (c : Char) : LineSt :=
  match eolStep v11 st.prevCR c with
  | (some d, p) => ⟨if d == chLF then st.line + 1 else st.line, p⟩
  | (none, p) => ⟨st.line, p⟩

def LineSt.feed (v11 : Bool) (st : LineSt) : Str → LineSt
  | [] => st
  | c :: t => LineSt.feed v11 (st.step v11 c) t

def countLF : Str → Nat
  | [] => 0
  | c :: t => (if c == chLF then 1 else 0) + countLF t

/-- declarative line number of the position after the text `s` of the document entity -/
def lineOf (v11 : Bool) (s : Str) : Nat := 1 + countLF (eol v11 s)

/-! ### §3.3.3 attribute-value normalisation -/

/-- an item of the (expanded) unnormalised attribute value: a literal character (of the attribute value or of entity
    replacement text) or a character that was written as a character reference -/
inductive VTok
  | lit (c : Char)
  | ref (c : Char)
  deriving DecidableEq, Repr, Inhabited

/-- white space character of §3.3.3: #x20 #xD #xA #x9 -/
def isWs (c : Char) : Bool := c == ' ' || c == '\t' || c == '\n' || c == '\r'

/-- step 3 of the algorithm -/
def step3 : List VTok → Str
  | [] => []
  | .ref c :: t => c :: step3 t
  | .lit c :: t => (if isWs c then ' ' else c) :: step3 t

/-- the maximal space-free runs of a string -/
def words : Str → List Str
  | [] => []
  | c :: t =>
    if c == ' ' then words t
    else
      match t with
      | [] => [[c]]
      | d :: _ =>
        if d == ' ' then [c] :: words t
        else
          match words t with
          | w :: ws => (c :: w) :: ws
          | [] => [[c]]

def joinSp : List Str → Str
  | [] => []
  | [w] => w
  | w :: ws => w ++ ' ' :: joinSp ws

/-- "discarding any leading and trailing space (#x20) characters, and replacing sequences of space (#x20)
    characters by a single space (#x20) character" -/
def collapse (s : Str) : Str := joinSp (words s)

def attNorm (cdata : Bool) (v : List VTok) : Str :=
  if cdata then step3 v else collapse (step3 v)

/-! ### references -/

def predefChar (n : Str) : Option Char :=
  if n = ['l', 't'] then some '<'
  else if n = ['g', 't'] then some '>'
  else if n = ['a', 'm', 'p'] then some '&'
  else if n = ['a', 'p', 'o', 's'] then some '\''
  else if n = ['q', 'u', 'o', 't'] then some '"'
  else none

/-- §4.5 replacement text of an internal entity written as `val` in the document entity: literal line ends
    normalised, character references expanded, general-entity references kept -/
def replText (v11 : Bool) (val : List AttPiece) : Str := replacementText (eolPieces v11 false val)

/-- the unnormalised attribute value with all references resolved (§3.3.3 step 3, "recursively");
    the first argument bounds the nesting depth of entity references -/
def valToks (env : EntEnv) (v11 : Bool) : Nat → List AttPiece → List VTok
  | 0, _ => []
  | d + 1, ps =>
    ps.flatMap fun p =>
      match p with
      | .ch c => [.lit c]
      | .cref r => [.ref (Char.ofNat r.value)]
      | .eref n =>
        match predefChar n with
        | some c => [.ref c]
        | none =>
          match env.find n with
          | some (.internal _ val) =>
            match parsePiecesAll ((replText v11 val).length + 1) (replText v11 val) with
            | some ps' => valToks env v11 d ps'
            | none => []
          | _ => []

/-! ### events -/

structure AttrEv where
  name : Str
  value : Str
  specified : Bool
  /-- declared type as the APIs name it: CDATA ID IDREF IDREFS ENTITY ENTITIES NMTOKEN NMTOKENS NOTATION ENUMERATION -/
  type : Str
  deriving DecidableEq, Repr, Inhabited

inductive EntityKind
  /-- internal: the replacement text -/
  | internal (value : Str)
  | external_ (publicId : Option Str) (systemId : Str)
  | unparsed (publicId : Option Str) (systemId : Str) (notation_ : Str)
  deriving DecidableEq, Repr, Inhabited

inductive Event
  | startDocument
  | xmlDecl (version : Str) (encoding : Option Str) (standalone : Option Bool)
  | doctype (name : Str) (publicId systemId : Option Str)
  | endDoctype
  | entityDecl (name : Str) (kind : EntityKind)
  | notationDecl (name : Str) (publicId systemId : Option Str)
  | startElement (name : Str) (attrs : List AttrEv) (line : Nat)
  | endElement (name : Str)
  | characters (s : Str)
  | ignorableWhitespace (s : Str)
  | startCDATA
  | endCDATA
  | comment (s : Str) (line : Nat)
  | pi (target data : Str) (line : Nat)
  | startEntity (name : Str)
  | endEntity (name : Str)
  | endDocument
  deriving DecidableEq, Repr, Inhabited

/-! ### DTD lookups (internal subset; the first declaration binds) -/

def kwCDATA : Str := ['C', 'D', 'A', 'T', 'A']

def attDefsFor (decls : List Decl) (elem : Str) : List AttDef :=
  decls.flatMap fun d =>
    match d with
    | .attlist _ n defs _ => if n = elem then defs else []
    | _ => []

def findAttDef (defs : List AttDef) (name : Str) : Option AttDef :=
  defs.find? (fun d => d.name == name)

/-- definitions in order, later definitions of an already defined attribute dropped -/
def firstDefs : List AttDef → List Str → List AttDef
  | [], _ => []
  | d :: ds, seen => if seen.contains d.name then firstDefs ds seen else d :: firstDefs ds (d.name :: seen)

def typeName (ty : Str) : Str :=
  if ty.head? = some '(' then "ENUMERATION".toList
  else if ty.take 8 = "NOTATION".toList then "NOTATION".toList
  else ty

def isCDataType (ty : Str) : Bool := ty == kwCDATA

/-- context of the document: version, entities, declarations, expansion depth bound -/
structure Ctx where
  v11 : Bool
  env : EntEnv
  decls : List Decl
  depth : Nat

def normValue (cx : Ctx) (ty : Str) (val : List AttPiece) : Str :=
  attNorm (isCDataType ty) (valToks cx.env cx.v11 cx.depth val)

/-- attributes of a start tag or empty-element tag: the specified ones in document order, then the defaults that
    were not specified, in declaration order.  `ext` = the tag is in the document entity (line ends not yet normalised) -/
def tagAttrs (cx : Ctx) (ext : Bool) (t : Tag) : List AttrEv :=
  let defs := attDefsFor cx.decls t.name
  let spec := t.atts.map fun a =>
    let ty := match findAttDef defs a.name with
      | some d => d.type
      | none => kwCDATA
    (⟨a.name, normValue cx ty (if ext then eolPieces cx.v11 false a.val else a.val), true, typeName ty⟩ : AttrEv)
  let dflt := (firstDefs defs []).filterMap fun d =>
    match d.dflt with
    | some (_, v) =>
      if t.atts.any (fun a => a.name == d.name) then none
      else some (⟨d.name, normValue cx d.type (eolPieces cx.v11 false v), false, typeName d.type⟩ : AttrEv)
    | none => none
  spec ++ dflt

/-! ### content -/

/-- element types declared with element content (§3.2.1): `children`, i.e. a parenthesised model that is not Mixed -/
def isElementContentSpec (spec : Str) : Bool :=
  match spec with
  | '(' :: t => (stripPrefix ['#', 'P', 'C', 'D', 'A', 'T', 'A'] (spanP isSC t).2).isNone
  | _ => false

def hasElementContent (decls : List Decl) (name : Str) : Bool :=
  match decls.find? (fun d => match d with | .element _ n _ _ _ => n == name | _ => false) with
  | some (.element _ _ _ spec _) => isElementContentSpec spec
  | _ => false

/-- events of one token of content.
    `expand n line` = events of the replacement text of entity `n` referenced at a position whose line is `line`;
    `ext` = the token is in the document entity; `st` = position before the token; `ign` = the token is directly inside
    an element declared with element content. -/
def tokEvents (cx : Ctx) (expand : Str → Nat → List Event) (ext : Bool) (ign : Bool) (st : LineSt) (t : Tok) : List Event :=
  let after := if ext then (st.feed cx.v11 (renderTok t)).line else st.line
  match t with
  | .leaf (.ch c) =>
    let out := if ext then (eolStep cx.v11 st.prevCR c).1 else some c
    match out with
    | some d => if ign && isSC d then [.ignorableWhitespace [d]] else [.characters [d]]
    | none => []
  | .leaf (.cref r) => [.characters [Char.ofNat r.value]]
  | .leaf (.eref n) =>
    match predefChar n with
    | some c => [.characters [c]]
    | none => .startEntity n :: (expand n after ++ [.endEntity n])
  | .leaf (.cdata s) =>
    let s' := if ext then eol cx.v11 s else s
    if s' = [] then [.startCDATA, .endCDATA] else [.startCDATA, .characters s', .endCDATA]
  | .leaf (.comment s) => [.comment (if ext then eol cx.v11 s else s) after]
  | .leaf (.pi tg _ d) => [.pi tg (if ext then eol cx.v11 d else d) after]
  | .stag tg => [.startElement tg.name (tagAttrs cx ext tg) after]
  | .etag n _ => [.endElement n]
  | .empty tg => [.startElement tg.name (tagAttrs cx ext tg) after, .endElement tg.name]
  | .doctype _ => []

/-- the stack of "directly inside element content?" flags after a token -/
def ignPush (cx : Ctx) (stack : List Bool) : Tok → List Bool
  | .stag tg => hasElementContent cx.decls tg.name :: stack
  | .etag _ _ => stack.tail
  | _ => stack

def contentEvents (cx : Ctx) (expand : Str → Nat → List Event) (ext : Bool) : List Bool → LineSt → List Tok → List Event
  | _, _, [] => []
  | stack, st, t :: ts =>
    tokEvents cx expand ext (stack.head?.getD false) st t ++
      contentEvents cx expand ext (ignPush cx stack t) (if ext then st.feed cx.v11 (renderTok t) else st) ts

mutual
/-- WFC Element Type Match on a tree -/
def tagsMatch : Node → Bool
  | .leaf _ => true
  | .elem t kids en _ => t.name == en && tagsMatchL kids
  | .empty _ => true
def tagsMatchL : List Node → Bool
  | [] => true
  | n :: ns => tagsMatch n && tagsMatchL ns
end

/-- events of the replacement text of a declared internal entity, `d` levels of nesting allowed.
    Replacement text that is not well-formed content (excluded by `WF` for every referenced entity) yields nothing. -/
def expandEntity (cx : Ctx) : Nat → Str → Nat → List Event
  | 0, _, _ => []
  | d + 1, n, line =>
    match cx.env.find n with
    | some (.internal _ val) =>
      match entityAsContent (eolPieces cx.v11 false val) with
      | .ok ns =>
        if tagsMatchL ns then contentEvents cx (expandEntity cx d) false [] ⟨line, false⟩ (Node.toksL ns) else []
      | .error _ => []
    | _ => []

/-! ### prolog, DOCTYPE, epilog -/

/-- Misc items: white space is not reported -/
def miscEvents (cx : Ctx) : LineSt → List Leaf → List Event
  | _, [] => []
  | st, l :: ls =>
    (match l with
     | .comment s => [Event.comment (eol cx.v11 s) (st.feed cx.v11 (renderLeaf l)).line]
     | .pi tg _ d => [Event.pi tg (eol cx.v11 d) (st.feed cx.v11 (renderLeaf l)).line]
     | _ => []) ++ miscEvents cx (st.feed cx.v11 (renderLeaf l)) ls

/-- the literal between the quotes that follow the keyword (S already skipped) -/
def quotedAfter (s : Str) : Option (Str × Str) :=
  match scanQuoted (spanP isSC s).2 with
  | some (_, lit, r) => some (lit, r)
  | none => none

/-- public and system identifier of an ExternalID / PublicID kept as raw text -/
def idsOfRaw (raw : Str) : Option Str × Option Str :=
  match stripPrefix ['S', 'Y', 'S', 'T', 'E', 'M'] raw with
  | some r =>
    match quotedAfter r with
    | some (sys, _) => (none, some sys)
    | none => (none, none)
  | none =>
    match stripPrefix ['P', 'U', 'B', 'L', 'I', 'C'] raw with
    | some r =>
      match quotedAfter r with
      | some (pub, r') =>
        match quotedAfter r' with
        | some (sys, _) => (some pub, some sys)
        | none => (some pub, none)
      | none => (none, none)
    | none => (none, none)

def idsOfExternal : ExternalID → Option Str × Str
  | .system _ _ lit => (none, lit)
  | .public_ _ _ pub _ _ sys => (some pub, sys)

def entityKind (cx : Ctx) : EntityDef → EntityKind
  | .internal _ val => .internal (replText cx.v11 val)
  | .external_ id none => .external_ ((idsOfExternal id).1.map (eol cx.v11)) (eol cx.v11 (idsOfExternal id).2)
  | .external_ id (some (_, _, nn)) => .unparsed ((idsOfExternal id).1.map (eol cx.v11)) (eol cx.v11 (idsOfExternal id).2) nn

/-- declarations of the internal subset; `seenE`/`seenN` = entity / notation names already declared (first binds) -/
def declEvents (cx : Ctx) : LineSt → List Str → List Str → List Decl → List Event
  | _, _, _, [] => []
  | st, seenE, seenN, d :: ds =>
    let st' := st.feed cx.v11 (renderDecl d)
    match d with
    | .comment s => .comment (eol cx.v11 s) st'.line :: declEvents cx st' seenE seenN ds
    | .pi tg _ dt => .pi tg (eol cx.v11 dt) st'.line :: declEvents cx st' seenE seenN ds
    | .entity _ n _ df _ =>
      if seenE.contains n then declEvents cx st' seenE seenN ds
      else .entityDecl n (entityKind cx df) :: declEvents cx st' (n :: seenE) seenN ds
    | .notation_ _ n _ id _ =>
      if seenN.contains n then declEvents cx st' seenE seenN ds
      else .notationDecl n ((idsOfRaw id).1.map (eol cx.v11)) ((idsOfRaw id).2.map (eol cx.v11)) ::
        declEvents cx st' seenE (n :: seenN) ds
    | _ => declEvents cx st' seenE seenN ds

def doctypeHead (dt : Doctype) : Str :=
  ['<', '!', 'D', 'O', 'C', 'T', 'Y', 'P', 'E'] ++ dt.s1 ++ dt.name ++ dt.s2 ++
    (match dt.subset with | none => [] | some _ => ['['])

def doctypeEvents (cx : Ctx) (st : LineSt) (dt : Doctype) : List Event :=
  .doctype dt.name none none ::
    (declEvents cx (st.feed cx.v11 (doctypeHead dt)) [] [] dt.decls ++ [.endDoctype])

/-! ### merging of adjacent character data -/

def mergeChars : List Event → List Event
  | [] => []
  | .characters s :: t =>
    match mergeChars t with
    | .characters s' :: r => .characters (s ++ s') :: r
    | r => if s = [] then r else .characters s :: r
  | .ignorableWhitespace s :: t =>
    match mergeChars t with
    | .ignorableWhitespace s' :: r => .ignorableWhitespace (s ++ s') :: r
    | r => if s = [] then r else .ignorableWhitespace s :: r
  | e :: t => e :: mergeChars t

/-! ### the document -/

def docCtx (d : Doc) : Ctx :=
  ⟨d.version == .v11, d.env,
   match d.doctype with | none => [] | some (dt, _) => dt.decls,
   d.env.length + 1⟩

def declText (d : Doc) : Str :=
  match d.decl with
  | none => []
  | some x => renderXmlDecl x

def xmlDeclEvents (d : Doc) : List Event :=
  match d.decl with
  | none => []
  | some x => [.xmlDecl ('1' :: '.' :: x.versionMinor) (x.encoding.map (·.2)) (x.standalone.map (·.2))]

/-- the events before merging; the line state is threaded through the pieces of the document in order -/
def rawEvents (d : Doc) : List Event :=
  let cx := docCtx d
  let st0 := LineSt.init.feed cx.v11 (declText d)
  let st1 := st0.feed cx.v11 (renderLeaves d.pre)
  let (dtEvs, st2) :=
    match d.doctype with
    | none => (([] : List Event), st1)
    | some (dt, misc) =>
      (doctypeEvents cx st1 dt ++ miscEvents cx (st1.feed cx.v11 (renderDoctype dt)) misc,
       (st1.feed cx.v11 (renderDoctype dt)).feed cx.v11 (renderLeaves misc))
  let st3 := st2.feed cx.v11 (renderToks d.root.toks)
  .startDocument :: (xmlDeclEvents d ++ miscEvents cx st0 d.pre ++ dtEvs ++
    contentEvents cx (expandEntity cx cx.depth) true [] st2 d.root.toks ++
    miscEvents cx st3 d.post ++ [.endDocument])

/-- what a (validating) XML processor reports for the document -/
def infoset (d : Doc) : List Event := mergeChars (rawEvents d)

/-- a processor that does not classify white space in element content reports it as character data -/
def nonValidating (es : List Event) : List Event :=
  mergeChars (es.map fun e => match e with | .ignorableWhitespace s => .characters s | e => e)

/-! ### well-nestedness -/

def Event.isOpen : Event → Bool
  | .startDocument | .doctype _ _ _ | .startElement _ _ _ | .startCDATA | .startEntity _ => true
  | _ => false

def Event.isClose : Event → Bool
  | .endDocument | .endDoctype | .endElement _ | .endCDATA | .endEntity _ => true
  | _ => false

def Event.matches : Event → Event → Bool
  | .startDocument, .endDocument => true
  | .doctype _ _ _, .endDoctype => true
  | .startElement n _ _, .endElement m => n == m
  | .startCDATA, .endCDATA => true
  | .startEntity n, .endEntity m => n == m
  | _, _ => false

/-- balanced event words (the Dyck language over the five bracket kinds, with the other events as letters) -/
inductive Balanced : List Event → Prop
  | nil : Balanced []
  | atom (a : Event) (w : List Event) : a.isOpen = false → a.isClose = false → Balanced w → Balanced (a :: w)
  | wrap (o c : Event) (u w : List Event) : o.isOpen = true → c.isClose = true → o.matches c = true →
      Balanced u → Balanced w → Balanced (o :: (u ++ c :: w))

/-! ### the DOM adapter: a tree that keeps everything, and its walk -/

inductive DNode
  | atom (e : Event)
  | node (o : Event) (kids : List DNode) (c : Event)
  deriving Repr, Inhabited

abbrev Tree := List DNode

mutual
def DNode.walk : DNode → List Event
  | .atom e => [e]
  | .node o kids c => o :: (DNode.walkL kids ++ [c])
def DNode.walkL : List DNode → List Event
  | [] => []
  | n :: ns => n.walk ++ DNode.walkL ns
end

def domWalk (t : Tree) : List Event := DNode.walkL t

/-- recursive-descent construction of the forest: reads nodes up to (not including) the first unmatched close event -/
def buildForest : Nat → List Event → List DNode × List Event
  | 0, es => ([], es)
  | _ + 1, [] => ([], [])
  | fuel + 1, e :: es =>
    if e.isClose then ([], e :: es)
    else if e.isOpen then
      match buildForest fuel es with
      | (kids, c :: rest) =>
        if e.matches c then ((.node e kids c :: (buildForest fuel rest).1), (buildForest fuel rest).2)
        else ([.atom e], c :: rest)       -- unbalanced input: stop
      | (_, []) => ([.atom e], [])        -- unbalanced input: stop
    else ((.atom e :: (buildForest fuel es).1), (buildForest fuel es).2)

def buildDom (es : List Event) : Tree := (buildForest (es.length + 1) es).1

/-! ### DOMLSParserFilter as a tree transformer -/

inductive Action | accept | reject | skip
  deriving DecidableEq, Repr, Inhabited

/-- a filter decides on element names (`startElement`/`acceptNode` on elements) and on the kinds of the other nodes
    (`whatToShow` + `acceptNode`); for a node that is not an element, `skip` has the effect of `reject` -/
structure Filter where
  onElement : Str → Action
  onText : Action
  onCData : Action
  onComment : Action
  onPI : Action

def Filter.onAtom (f : Filter) : Event → Action
  | .characters _ => f.onText
  | .ignorableWhitespace _ => f.onText
  | .comment _ _ => f.onComment
  | .pi _ _ _ => f.onPI
  | _ => .accept

mutual
def lsFilterNode (f : Filter) : DNode → List DNode
  | .atom e => if f.onAtom e = .accept then [.atom e] else []
  | .node o kids c =>
    match o with
    | .startElement n _ _ =>
      match f.onElement n with
      | .accept => [.node o (lsFilterL f kids) c]
      | .reject => []
      | .skip => lsFilterL f kids
    | .startCDATA => if f.onCData = .accept then [.node o kids c] else []
    | .doctype _ _ _ => [.node o kids c]
    | _ => [.node o (lsFilterL f kids) c]
def lsFilterL (f : Filter) : List DNode → List DNode
  | [] => []
  | n :: ns => lsFilterNode f n ++ lsFilterL f ns
end

def lsFilter (f : Filter) (t : Tree) : Tree := lsFilterL f t

/-- the filter applied to a document: the document element itself is not subject to the element decision (rejecting
    or skipping it would not leave a document); everything below it, and the comments and PIs beside it, are -/
def lsFilterDoc (f : Filter) (t : Tree) : Tree :=
  t.flatMap fun n =>
    match n with
    | .node (.startDocument) kids c =>
      [.node .startDocument (kids.flatMap fun k =>
        match k with
        | .node (.startElement nm as l) ks c' => [.node (.startElement nm as l) (lsFilterL f ks) c']
        | k => lsFilterNode f k) c]
    | n => lsFilterNode f n

/-- the same transformation on the event word.  `stack` = decisions for the open brackets, innermost first
    (`none` for a bracket the filter does not decide on); `mute` = inside a rejected subtree / CDATA section / DOCTYPE
    whose events are dropped (`true`) or copied verbatim without filtering (`copy`). -/
inductive Mode | filter | drop | copy
  deriving DecidableEq, Repr, Inhabited

def modeOf : List (Mode × Bool) → Mode
  | [] => .filter
  | (m, _) :: _ => m

/-- at an opening event: (mode inside the bracket, is the bracket itself kept?) -/
def Filter.atOpen (f : Filter) (mode : Mode) (e : Event) : Mode × Bool :=
  match mode with
  | .drop => (.drop, false)
  | .copy => (.copy, true)
  | .filter =>
    match e with
    | .startElement n _ _ =>
      (match f.onElement n with
       | .accept => (.filter, true)
       | .reject => (.drop, false)
       | .skip => (.filter, false))
    | .startCDATA => if f.onCData = .accept then (.copy, true) else (.drop, false)
    | .doctype _ _ _ => (.copy, true)
    | _ => (.filter, true)

def Filter.atAtom (f : Filter) (mode : Mode) (e : Event) : List Event :=
  match mode with
  | .drop => []
  | .copy => [e]
  | .filter => if f.onAtom e = .accept then [e] else []

def filterEvents (f : Filter) : List (Mode × Bool) → List Event → List Event
  | _, [] => []
  | stack, e :: es =>
    if e.isOpen then
      (if (f.atOpen (modeOf stack) e).2 then [e] else []) ++ filterEvents f (f.atOpen (modeOf stack) e :: stack) es
    else if e.isClose then
      match stack with
      | [] => e :: filterEvents f [] es
      | (_, emit) :: rest => (if emit then [e] else []) ++ filterEvents f rest es
    else f.atAtom (modeOf stack) e ++ filterEvents f stack es

/-! ### progressive parse: parseFirst / parseNext deliver the same stream in pieces -/

/-- nesting depth of the constructs that one `parseNext` delivers whole: entity references, CDATA sections, DOCTYPE -/
def depthAfter (depth : Nat) : Event → Nat
  | .startEntity _ | .startCDATA | .doctype _ _ _ => depth + 1
  | .endEntity _ | .endCDATA | .endDoctype => depth - 1
  | _ => depth

/-- one `parseNext`: the events of the next token — everything up to and including the next event that ends a token
    (an entity reference is delivered with its whole expansion; CDATA with its brackets) -/
def nextChunk : Nat → List Event → List Event × List Event
  | _, [] => ([], [])
  | depth, e :: es =>
    if depthAfter depth e = 0 then ([e], es)
    else ((e :: (nextChunk (depthAfter depth e) es).1), (nextChunk (depthAfter depth e) es).2)

/-- the loop `parseFirst(); while (parseNext()) {}` as an unfold of the stream -/
def pull : Nat → List Event → List (List Event)
  | 0, _ => []
  | _, [] => []
  | fuel + 1, e :: es => (nextChunk 0 (e :: es)).1 :: pull fuel (nextChunk 0 (e :: es)).2

def pullAll (es : List Event) : List (List Event) := pull es.length es

/-! ### SAX views -/

inductive Sax1Ev
  | startDocument
  | endDocument
  | startElement (name : Str) (attrs : List (Str × Str × Str)) (line : Nat)     -- name, type, value
  | endElement (name : Str)
  | characters (s : Str)
  | ignorableWhitespace (s : Str)
  | pi (target data : Str) (line : Nat)
  | notationDecl (name : Str) (publicId systemId : Option Str)
  | unparsedEntityDecl (name : Str) (publicId : Option Str) (systemId : Str) (notation_ : Str)
  deriving DecidableEq, Repr, Inhabited

/-- prefix and local part of a qualified name (namespaces on); a name without colon has the empty prefix -/
def splitQName (n : Str) : Str × Str :=
  match (spanP (· != ':') n).2 with
  | [] => ([], n)
  | _ :: l => ((spanP (· != ':') n).1, l)

structure Sax2Name where
  pfx : Str
  localName : Str
  qname : Str
  deriving DecidableEq, Repr, Inhabited

def Sax2Name.of (ns : Bool) (n : Str) : Sax2Name :=
  if ns then ⟨(splitQName n).1, (splitQName n).2, n⟩ else ⟨[], [], n⟩

inductive Sax2Ev
  | startDocument
  | endDocument
  | startElement (name : Sax2Name) (attrs : List (Sax2Name × Str × Str)) (line : Nat)   -- name, type, value
  | endElement (name : Sax2Name)
  | characters (s : Str)
  | ignorableWhitespace (s : Str)
  | pi (target data : Str) (line : Nat)
  | notationDecl (name : Str) (publicId systemId : Option Str)
  | unparsedEntityDecl (name : Str) (publicId : Option Str) (systemId : Str) (notation_ : Str)
  -- LexicalHandler
  | comment (s : Str) (line : Nat)
  | startCDATA
  | endCDATA
  | startDTD (name : Str) (publicId systemId : Option Str)
  | endDTD
  | startEntity (name : Str)
  | endEntity (name : Str)
  -- DeclHandler
  | internalEntityDecl (name : Str) (value : Str)
  | externalEntityDecl (name : Str) (publicId : Option Str) (systemId : Str)
  deriving DecidableEq, Repr, Inhabited

def toSAX2One (ns : Bool) : Event → List Sax2Ev
  | .startDocument => [.startDocument]
  | .xmlDecl _ _ _ => []
  | .doctype n p s => [.startDTD n p s]
  | .endDoctype => [.endDTD]
  | .entityDecl n (.internal v) => [.internalEntityDecl n v]
  | .entityDecl n (.external_ p s) => [.externalEntityDecl n p s]
  | .entityDecl n (.unparsed p s nn) => [.unparsedEntityDecl n p s nn]
  | .notationDecl n p s => [.notationDecl n p s]
  | .startElement n as l => [.startElement (.of ns n) (as.map fun a => (Sax2Name.of ns a.name, a.type, a.value)) l]
  | .endElement n => [.endElement (.of ns n)]
  | .characters s => [.characters s]
  | .ignorableWhitespace s => [.ignorableWhitespace s]
  | .startCDATA => [.startCDATA]
  | .endCDATA => [.endCDATA]
  | .comment s l => [.comment s l]
  | .pi t d l => [.pi t d l]
  | .startEntity n => [.startEntity n]
  | .endEntity n => [.endEntity n]
  | .endDocument => [.endDocument]

def toSAX2 (ns : Bool) (es : List Event) : List Sax2Ev := es.flatMap (toSAX2One ns)

def toSAX1One : Event → List Sax1Ev
  | .startDocument => [.startDocument]
  | .entityDecl n (.unparsed p s nn) => [.unparsedEntityDecl n p s nn]
  | .notationDecl n p s => [.notationDecl n p s]
  | .startElement n as l => [.startElement n (as.map fun a => (a.name, a.type, a.value)) l]
  | .endElement n => [.endElement n]
  | .characters s => [.characters s]
  | .ignorableWhitespace s => [.ignorableWhitespace s]
  | .pi t d l => [.pi t d l]
  | .endDocument => [.endDocument]
  | _ => []

def mergeSax1 : List Sax1Ev → List Sax1Ev
  | [] => []
  | .characters s :: t =>
    match mergeSax1 t with
    | .characters s' :: r => .characters (s ++ s') :: r
    | r => .characters s :: r
  | .ignorableWhitespace s :: t =>
    match mergeSax1 t with
    | .ignorableWhitespace s' :: r => .ignorableWhitespace (s ++ s') :: r
    | r => .ignorableWhitespace s :: r
  | e :: t => e :: mergeSax1 t

/-- what a SAX1 DocumentHandler + DTDHandler sees; character data that was separated only by events SAX1 does not
    deliver (comments, CDATA and entity boundaries) is adjacent, hence merged -/
def toSAX1 (es : List Event) : List Sax1Ev := mergeSax1 (es.flatMap toSAX1One)

/-- the projection of a SAX2 stream that forgets namespaces and the Lexical/Decl handler events -/
def eraseOne : Sax2Ev → List Sax1Ev
  | .startDocument => [.startDocument]
  | .endDocument => [.endDocument]
  | .startElement n as l => [.startElement n.qname (as.map fun a => (a.1.qname, a.2.1, a.2.2)) l]
  | .endElement n => [.endElement n.qname]
  | .characters s => [.characters s]
  | .ignorableWhitespace s => [.ignorableWhitespace s]
  | .pi t d l => [.pi t d l]
  | .notationDecl n p s => [.notationDecl n p s]
  | .unparsedEntityDecl n p s nn => [.unparsedEntityDecl n p s nn]
  | _ => []

def erase (es : List Sax2Ev) : List Sax1Ev := mergeSax1 (es.flatMap eraseOne)

/-! ### the DOM view: entity-reference nodes on/off, ignorable white space kept/dropped -/

/-- `createEntityReferenceNodes = false`: the expansion takes the place of the reference -/
def inlineEntities (es : List Event) : List Event :=
  mergeChars (es.filter fun e => match e with | .startEntity _ | .endEntity _ => false | _ => true)

/-- `includeIgnorableWhitespace = false` -/
def dropIgnorable (es : List Event) : List Event :=
  mergeChars (es.filter fun e => match e with | .ignorableWhitespace _ => false | _ => true)

end XV.Spec.Infoset
