/-
C08 — Spec of XML Schema 1.0 (Structures) particles and of the local validation rules that the property
exercises.  Definitions only; no Mathlib.

  §3.9  Particles            `Particle`: element / wildcard leaves, sequence, choice, all, each with an
                             occurrence range {min, max | unbounded}  (`rep`)
  §3.9.4 "Element Sequence Valid / Locally Valid (Particle)"   -> `PLang` (declarative), `pMatch` (executable)
  §3.8.4 all-group           every order of the members, each member 0/1 times (0 only if optional)
  §3.10.4 "Wildcard allows Namespace Name"                      -> `NsConstraint.Allows`
  §3.3.6 "Substitution Group OK (Transitive)"                   -> `Substitutable` / `substitutable`
  §3.4.4 "Element Locally Valid (Complex Type)" clauses 3, 4   -> `AttrsValid` / `attrViolations`

`Particle α` is polymorphic in the leaf type: `α = Nat` gives the *symbolic* language over leaf ids (this is
what `ComplexTypeInfo::expandContentModel` and the DFA construction operate on — they never look inside a
leaf), `α = Leaf` together with the matching relation `Leaf.Matches` gives the language over child element
names.  `PLang M p w`: the child sequence `w : List β` is locally valid w.r.t. particle `p`, where
`M x a` says "child `x` is accepted by leaf `a`".
-/
namespace XV.Spec.Particle

/-! ### names, wildcards -/

/-- expanded name; namespace `0` is the absent namespace (no namespace) -/
structure QName where
  ns : Nat
  name : Nat
  deriving Repr, DecidableEq, Inhabited

def absentNs : Nat := 0

/-- {namespace constraint} of a wildcard.  `##targetNamespace` / `##local` are resolved by the schema
    reader: they are entries (`tns` resp. `absentNs`) of `list`. -/
inductive NsConstraint where
  | any                       -- ##any
  | other (tns : Nat)         -- ##other = not(target namespace); `tns` may be `absentNs`
  | list (nss : List Nat)     -- a set of namespace names and/or absent
  deriving Repr, DecidableEq, Inhabited

/-- §3.10.4 Validation Rule "Wildcard allows Namespace Name" (XSD 1.0 2nd ed.: with `not`, the value must
    be a namespace name — not absent — different from the negated one) -/
def NsConstraint.Allows : NsConstraint → Nat → Prop
  | .any, _ => True
  | .other tns, n => n ≠ absentNs ∧ n ≠ tns
  | .list nss, n => n ∈ nss

def NsConstraint.allows : NsConstraint → Nat → Bool
  | .any, _ => true
  | .other tns, n => n != absentNs && n != tns
  | .list nss, n => nss.contains n

inductive ProcessContents where
  | strict | lax | skip
  deriving Repr, DecidableEq, Inhabited

/-- the two kinds of leaf particle terms -/
inductive Leaf where
  | elem (q : QName)
  | wild (c : NsConstraint) (pc : ProcessContents)
  deriving Repr, DecidableEq, Inhabited

/-- child `x` is accepted by a leaf: an element declaration `q` accepts `x` when `x` is `q` or is
    substitutable for it (`S x q`, supplied by the schema, see `Substitutable`); a wildcard accepts every name
    whose namespace it allows -/
def Leaf.Matches (S : QName → QName → Prop) (x : QName) : Leaf → Prop
  | .elem q => x = q ∨ S x q
  | .wild c _ => c.Allows x.ns

def Leaf.matches (S : QName → QName → Bool) (x : QName) : Leaf → Bool
  | .elem q => x == q || S x q
  | .wild c _ => c.allows x.ns

/-! ### particles -/

/-- Particles.  `rep min max p` is the occurrence range (`max = none`: unbounded) around a term; `eps` is the
    empty sequence group, `fail` the empty choice group (it matches nothing).  An `all` group lists its
    members (element leaves) with their `optional` flag (minOccurs = 0); XSD 1.0 allows only 0/1 there. -/
inductive Particle (α : Type) where
  | eps
  | fail
  | leaf (a : α)
  | seq (p q : Particle α)
  | choice (p q : Particle α)
  | all (ms : List (α × Bool))
  | rep (min : Nat) (max : Option Nat) (p : Particle α)
  deriving Repr, DecidableEq, Inhabited

variable {α β : Type}

/-- the members of an all-group taken in the listed order: each contributes exactly one accepted child, or
    nothing if it is optional -/
inductive SeqOpt (M : β → α → Prop) : List (α × Bool) → List β → Prop where
  | nil : SeqOpt M [] []
  | take {a : α} {opt : Bool} {ms : List (α × Bool)} {x : β} {w : List β} :
      M x a → SeqOpt M ms w → SeqOpt M ((a, opt) :: ms) (x :: w)
  | skip {a : α} {ms : List (α × Bool)} {w : List β} :
      SeqOpt M ms w → SeqOpt M ((a, true) :: ms) w

/-- §3.9.4: the sequences of children that are locally valid w.r.t. a particle.
    `rep`: the sequence splits into `n` consecutive parts, each valid w.r.t. the term, `min ≤ n ≤ max`.
    `all`: some order (permutation) of the members matches the sequence. -/
inductive PLang (M : β → α → Prop) : Particle α → List β → Prop where
  | eps : PLang M .eps []
  | leaf {a : α} {x : β} : M x a → PLang M (.leaf a) [x]
  | seq {p q : Particle α} {u v : List β} : PLang M p u → PLang M q v → PLang M (.seq p q) (u ++ v)
  | choiceL {p : Particle α} (q : Particle α) {u : List β} : PLang M p u → PLang M (.choice p q) u
  | choiceR (p : Particle α) {q : Particle α} {u : List β} : PLang M q u → PLang M (.choice p q) u
  | all {ms σ : List (α × Bool)} {w : List β} : σ.Perm ms → SeqOpt M σ w → PLang M (.all ms) w
  | rep {min : Nat} {max : Option Nat} {p : Particle α} (ws : List (List β)) :
      (∀ u, u ∈ ws → PLang M p u) → min ≤ ws.length → (∀ m, max = some m → ws.length ≤ m) →
      PLang M (.rep min max p) ws.flatten

/-! ### executable matcher: derivatives with occurrence counters -/

/-- is `min ≤ max` (an unbounded max is above everything) -/
def rangeOk (min : Nat) : Option Nat → Bool
  | none => true
  | some m => min ≤ m

def Particle.nullable : Particle α → Bool
  | .eps => true
  | .fail => false
  | .leaf _ => false
  | .seq p q => p.nullable && q.nullable
  | .choice p q => p.nullable || q.nullable
  | .all ms => ms.all (fun m => m.2)
  | .rep min max p => min == 0 || (p.nullable && rangeOk min max)

/-- smart constructors: keep derivatives small (`fail` is absorbing for `seq`, neutral for `choice`) -/
def mkSeq : Particle α → Particle α → Particle α
  | .fail, _ => .fail
  | .eps, q => q
  | p, q => .seq p q

def mkChoice : Particle α → Particle α → Particle α
  | .fail, q => q
  | p, .fail => p
  | p, q => .choice p q

def predOpt : Option Nat → Option Nat
  | none => none
  | some m => some (m - 1)

variable [DecidableEq α]

/-- derivative of an all-group: the union, over the members `m` accepting the child, of the group without `m` -/
def allDeriv (acc : α → Bool) (ms : List (α × Bool)) : List (α × Bool) → Particle α
  | [] => .fail
  | m :: rest => if acc m.1 then mkChoice (.all (ms.erase m)) (allDeriv acc ms rest) else allDeriv acc ms rest

/-- Brzozowski derivative w.r.t. one child, given as the set `acc` of leaves that accept it.
    `rep`: one more iteration is started, the counters go down (`min` stops at 0, a bounded `max` at 0 closes
    the particle). -/
def Particle.deriv (acc : α → Bool) : Particle α → Particle α
  | .eps => .fail
  | .fail => .fail
  | .leaf a => if acc a then .eps else .fail
  | .seq p q => if p.nullable then mkChoice (mkSeq (p.deriv acc) q) (q.deriv acc) else mkSeq (p.deriv acc) q
  | .choice p q => mkChoice (p.deriv acc) (q.deriv acc)
  | .all ms => allDeriv acc ms ms
  | .rep min max p =>
    if max = some 0 then .fail else mkSeq (p.deriv acc) (.rep (min - 1) (predOpt max) p)

def Particle.derivs (M : β → α → Bool) (p : Particle α) : List β → Particle α
  | [] => p
  | x :: w => (p.deriv (fun a => M x a)).derivs M w

/-- The judge: is the child sequence `w` locally valid w.r.t. particle `p`? -/
def pMatch (M : β → α → Bool) (p : Particle α) (w : List β) : Bool := (p.derivs M w).nullable

/-! ### substitution groups (§3.3.6) -/

inductive Deriv where
  | extension | restriction
  deriving Repr, DecidableEq, Inhabited

/-- {disallowed substitutions} / {prohibited substitutions}: a subset of {substitution, extension, restriction} -/
structure BlockSet where
  substitution : Bool := false
  extension : Bool := false
  restriction : Bool := false
  deriving Repr, DecidableEq, Inhabited

def BlockSet.has (b : BlockSet) : Deriv → Bool
  | .extension => b.extension
  | .restriction => b.restriction

def BlockSet.union (a b : BlockSet) : BlockSet :=
  ⟨a.substitution || b.substitution, a.extension || b.extension, a.restriction || b.restriction⟩

/-- a type definition, as far as derivation is concerned: its base (none for the ur-type / a type that is
    the root of the modelled hierarchy), the derivation method and its {prohibited substitutions} -/
structure TypeDef where
  name : Nat
  base : Option Nat := none
  derivedBy : Deriv := .restriction
  block : BlockSet := {}
  abstract : Bool := false
  deriving Repr, DecidableEq, Inhabited

/-- a global element declaration, as far as substitution is concerned -/
structure ElemDecl where
  name : QName
  type : Nat
  subst : Option QName := none       -- {substitution group affiliation}
  abstract : Bool := false
  block : BlockSet := {}             -- {disallowed substitutions}
  nillable : Bool := false
  deriving Repr, DecidableEq, Inhabited

structure SubstEnv where
  elems : List ElemDecl
  types : List TypeDef
  deriving Repr, Inhabited

def SubstEnv.findElem (E : SubstEnv) (q : QName) : Option ElemDecl := E.elems.find? (fun d => d.name == q)
def SubstEnv.findType (E : SubstEnv) (t : Nat) : Option TypeDef := E.types.find? (fun d => d.name == t)

/-- there is a chain of {substitution group affiliation}s from `d` up to the element named `c`
    (at least one step) -/
inductive AffilChain (E : SubstEnv) : ElemDecl → QName → Prop where
  | step {d : ElemDecl} {c : QName} : d.subst = some c → AffilChain E d c
  | trans {d h : ElemDecl} {hq c : QName} : d.subst = some hq → E.findElem hq = some h → AffilChain E h c →
      AffilChain E d c

/-- type `t` is derived from type `b` in zero or more steps; `ms` are the derivation methods used and `bs`
    the union of the {prohibited substitutions} of `b` and of the intermediate types (§3.3.6 clause 2.3) -/
inductive DerivedVia (E : SubstEnv) : Nat → Nat → List Deriv → BlockSet → Prop where
  | refl (t : Nat) : DerivedVia E t t [] {}
  | step {t m b : Nat} {td : TypeDef} {ms : List Deriv} {bs : BlockSet} {md : TypeDef} :
      E.findType t = some td → td.base = some m → E.findType m = some md → DerivedVia E m b ms bs →
      DerivedVia E t b (td.derivedBy :: ms) (md.block.union bs)

/-- §3.3.6 Substitution Group OK (Transitive), for `d ≠ c`: `c`'s blocking constraint does not contain
    substitution, there is an affiliation chain from `d` to `c`, and the derivation methods from `c`'s type
    to `d`'s type avoid the blocking constraint and the prohibited substitutions on the way. -/
def Substitutable (E : SubstEnv) (dq cq : QName) : Prop :=
  ∃ d c, E.findElem dq = some d ∧ E.findElem cq = some c ∧
    c.block.substitution = false ∧ AffilChain E d cq ∧
    ∃ ms bs, DerivedVia E d.type c.type ms bs ∧ ∀ m, m ∈ ms → (c.block.union bs).has m = false

/-- executable: walk the affiliation chain (bounded by the number of declarations) -/
def affilChain (E : SubstEnv) : Nat → ElemDecl → QName → Bool
  | 0, _, _ => false
  | fuel + 1, d, c =>
    match d.subst with
    | none => false
    | some hq =>
      hq == c ||
      (match E.findElem hq with
       | none => false
       | some h => affilChain E fuel h c)

/-- executable: walk the base-type chain from `t` up to `b`; returns the methods and the collected blocks -/
def derivedVia (E : SubstEnv) : Nat → Nat → Nat → Option (List Deriv × BlockSet)
  | 0, t, b => if t = b then some ([], {}) else none
  | fuel + 1, t, b =>
    if t = b then some ([], {}) else
    match E.findType t with
    | none => none
    | some td =>
      match td.base with
      | none => none
      | some m =>
        match E.findType m with
        | none => none
        | some md =>
          match derivedVia E fuel m b with
          | none => none
          | some (ms, bs) => some (td.derivedBy :: ms, md.block.union bs)

def substitutable (E : SubstEnv) (dq cq : QName) : Bool :=
  match E.findElem dq, E.findElem cq with
  | some d, some c =>
    !c.block.substitution && affilChain E E.elems.length d cq &&
    (match derivedVia E E.types.length d.type c.type with
     | none => false
     | some (ms, bs) => ms.all (fun m => !(c.block.union bs).has m))
  | _, _ => false

/-- the members of the substitution group of `c` that may actually appear in an instance in the place of `c`:
    substitutable (or `c` itself) and not abstract -/
def substitutionMembers (E : SubstEnv) (cq : QName) : List QName :=
  (E.elems.filter (fun d => (d.name == cq || substitutable E d.name cq) && !d.abstract)).map (·.name)

/-! ### attribute uses (§3.4.4 Element Locally Valid (Complex Type), clauses 3 and 4; §3.2.4; §3.5) -/

inductive Use where
  | required | optional | prohibited
  deriving Repr, DecidableEq, Inhabited

inductive ValueConstraint where
  | none | default (v : Nat) | fixed (v : Nat)
  deriving Repr, DecidableEq, Inhabited

/-- an attribute use together with what matters of its declaration (values are ids of xs:string values) -/
structure AttrUse where
  name : QName
  use : Use := .optional
  vc : ValueConstraint := .none
  deriving Repr, DecidableEq, Inhabited

structure AttrWildcard where
  c : NsConstraint
  pc : ProcessContents
  deriving Repr, DecidableEq, Inhabited

/-- global attribute declarations (needed for strict / lax wildcards) -/
structure AttrDecl where
  name : QName
  vc : ValueConstraint := .none
  deriving Repr, DecidableEq, Inhabited

abbrev Attr := QName × Nat

/-- the {attribute uses} that count: a prohibited use is the absence of a use (§3.4.2 mapping) -/
def effectiveUses (uses : List AttrUse) : List AttrUse := uses.filter (fun u => u.use != .prohibited)

def findUse (uses : List AttrUse) (q : QName) : Option AttrUse := (effectiveUses uses).find? (fun u => u.name == q)
def findAttrDecl (ds : List AttrDecl) (q : QName) : Option AttrDecl := ds.find? (fun d => d.name == q)

def vcOk (vc : ValueConstraint) (v : Nat) : Bool :=
  match vc with
  | .fixed f => v == f
  | _ => true

/-- one attribute information item is locally valid (clause 3): by its attribute use (3.1), or by the
    attribute wildcard (3.2) — skip: nothing more; strict: a global declaration must exist and the value be
    valid w.r.t. it; lax: valid w.r.t. the global declaration if there is one -/
def attrOk (uses : List AttrUse) (wc : Option AttrWildcard) (globals : List AttrDecl) (a : Attr) : Bool :=
  match findUse uses a.1 with
  | some u => vcOk u.vc a.2
  | none =>
    match wc with
    | none => false
    | some w =>
      w.c.allows a.1.ns &&
      (match w.pc with
       | .skip => true
       | .strict => (match findAttrDecl globals a.1 with | some d => vcOk d.vc a.2 | none => false)
       | .lax => (match findAttrDecl globals a.1 with | some d => vcOk d.vc a.2 | none => true))

/-- declarative form: clause 3 for every attribute item, clause 4 for every required use
    (the attribute items of an element have distinct names: XML well-formedness + Namespaces) -/
def AttrsValid (uses : List AttrUse) (wc : Option AttrWildcard) (globals : List AttrDecl) (attrs : List Attr) : Prop :=
  (∀ a, a ∈ attrs → attrOk uses wc globals a = true) ∧
  (∀ u, u ∈ uses → u.use = .required → ∃ a, a ∈ attrs ∧ a.1 = u.name)

/-- executable: the list of violation classes (empty iff `AttrsValid`) -/
def attrViolations (uses : List AttrUse) (wc : Option AttrWildcard) (globals : List AttrDecl) (attrs : List Attr) : List String :=
  (attrs.filter (fun a => !attrOk uses wc globals a)).map (fun a =>
      match findUse uses a.1 with
      | some _ => "attr-fixed-value"
      | none =>
        if uses.any (fun u => u.name == a.1 && u.use == .prohibited) &&
           !(match wc with | some w => w.c.allows a.1.ns | none => false) then "attr-prohibited"
        else match wc with
          | none => "attr-not-declared"
          | some w => if w.c.allows a.1.ns then "attr-wildcard-strict" else "attr-not-declared")
  ++ ((uses.filter (fun u => u.use == .required && !attrs.any (fun a => a.1 == u.name))).map (fun _ => "attr-required-missing"))

/-- the attributes of the post-schema-validation infoset: the given ones plus the defaulted ones (uses with a
    default / fixed value constraint whose attribute is absent); `true` marks a defaulted attribute -/
def attrsWithDefaults (uses : List AttrUse) (attrs : List Attr) : List (Attr × Bool) :=
  attrs.map (fun a => (a, false)) ++
  (effectiveUses uses).filterMap (fun u =>
    if attrs.any (fun a => a.1 == u.name) then none else
    match u.vc with
    | .none => none
    | .default v => some ((u.name, v), true)
    | .fixed v => some ((u.name, v), true))

end XV.Spec.Particle
