/-
C18 — allocation discipline of a `MemoryManager`, as a declarative predicate over event traces.
No Mathlib.  A trace is what the recording managers of `harness/hx_mem.cpp` write: every
`allocate`/`deallocate` call with the identity of the manager that received it.  Pointer values may
be re-used after they were released (the system allocator does that all the time), so "live" is
defined relative to a prefix of the trace, never by the pointer value alone.
-/
namespace XV.Spec.Ledger

/-- One call on a `MemoryManager`: `alloc mgr ptr size` is a successful `mgr->allocate(size)` that
returned `ptr`; `free mgr ptr` is `mgr->deallocate(ptr)` with a non-null `ptr`. -/
inductive Event where
  | alloc (mgr ptr size : Nat)
  | free (mgr ptr : Nat)
deriving DecidableEq, Repr, Inhabited

open Event

/-- After the events `pre`, block `p` is live and owned by manager `m`: `pre` contains an allocation
of `p` by `m` that no later event of `pre` releases (whoever that release was addressed to). -/
def LiveAfter (pre : List Event) (p m : Nat) : Prop :=
  ∃ a b n, pre = a ++ alloc m p n :: b ∧ ∀ m', free m' p ∉ b

/-- `p` was handed out at some point of `pre` (live or not). -/
def EverAllocated (pre : List Event) (p : Nat) : Prop :=
  ∃ m n, alloc m p n ∈ pre

/-- The event `e` is legal after the history `pre`.
* an allocation must return a block that is not live (a manager never hands out a live block twice);
* a release must name a block that is live **and owned by the manager that receives the call** —
  this single clause excludes foreign pointers (never allocated), double frees (already released,
  not re-allocated since) and blocks returned to the wrong manager. -/
def OkEvent (pre : List Event) : Event → Prop
  | alloc _ p _ => ∀ m', ¬ LiveAfter pre p m'
  | free m p => LiveAfter pre p m

/-- Every event of the trace is legal after the events before it. -/
def Disciplined (tr : List Event) : Prop :=
  ∀ pre e post, tr = pre ++ e :: post → OkEvent pre e

/-- Nothing is outstanding at the end of the trace. -/
def Balanced (tr : List Event) : Prop :=
  ∀ p m, ¬ LiveAfter tr p m

/-- The ways one event can break the discipline (the classification the monitor reports). -/
inductive Kind where
  | foreignFree                -- released a pointer that no manager ever handed out
  | doubleFree                 -- released a pointer that was handed out but is not live any more
  | wrongManager (owner : Nat) -- released a live pointer to a manager other than its owner
  | dupAlloc (owner : Nat)     -- an allocation returned a block that is still live
  | leak (ptrs : List Nat)     -- end of trace with these blocks still live
deriving DecidableEq, Repr, Inhabited

/-- Declarative meaning of the per-event kinds. -/
def Breaks (pre : List Event) (e : Event) : Kind → Prop
  | .foreignFree => ∃ m p, e = free m p ∧ ¬ EverAllocated pre p
  | .doubleFree => ∃ m p, e = free m p ∧ EverAllocated pre p ∧ ∀ m', ¬ LiveAfter pre p m'
  | .wrongManager o => ∃ m p, e = free m p ∧ LiveAfter pre p o ∧ o ≠ m
  | .dupAlloc o => ∃ m p n, e = alloc m p n ∧ LiveAfter pre p o
  | .leak _ => False

end XV.Spec.Ledger
