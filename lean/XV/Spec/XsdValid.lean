/-
C08 — executable Spec of schema-validity assessment of an element information item against schema
COMPONENTS (XML Schema 1.0 Structures): §3.3.4 Element Locally Valid (Element), §3.4.4 Element Locally Valid
(Complex Type), §3.9.4 particles, §3.10.4 wildcards, §3.3.6 substitution groups, xsi:type (§3.3.4 clause 4,
Type Derivation OK), xsi:nil (clause 3), value constraints (clause 5), and the PSVI contributions that the
property compares: governing type, attributes incl. defaulted ones, element default text.

`violations S root` is the judge of the document tier in tools/props/c08.py ("valid" iff it is empty); it is
built from the Spec pieces of XV.Spec.Particle (`pMatch`, `attrViolations`, `substitutable`).  Simple types are
opaque here (every lexical value is valid for them; datatypes are property C09): only their identity and
derivation chain matter (xsi:type).  Definitions only; no Mathlib.
-/
import XV.Spec.Particle
namespace XV.Spec.XsdValid
open XV.Spec.Particle

/-- content type of a complex type definition -/
inductive Content where
  | empty
  | simple                                  -- simple content (character data only)
  | elementOnly (p : Particle Nat)          -- leaves are indices into `Schema.leaves`
  | mixed (p : Particle Nat)
  deriving Repr, Inhabited

/-- a leaf of a content model: an element declaration (index into `Schema.decls`) or a wildcard -/
inductive LeafRef where
  | decl (k : Nat)
  | wild (c : NsConstraint) (pc : ProcessContents)
  deriving Repr, DecidableEq, Inhabited

structure ComplexType where
  id : Nat
  name : Option QName                        -- none: anonymous
  content : Content
  uses : List AttrUse                        -- the effective {attribute uses} (base uses included)
  wildcard : Option AttrWildcard
  deriving Repr, Inhabited

/-- an element declaration (global or local).  `type` is a type id: complex types are found in
    `Schema.ctypes`, every other id is a simple type. -/
structure Decl where
  name : QName
  global : Bool
  type : Nat
  vc : ValueConstraint := .none
  deriving Repr, Inhabited

structure Schema where
  env : SubstEnv                             -- global element declarations + all type definitions (derivation data)
  ctypes : List ComplexType
  decls : List Decl                          -- all element declarations; particles refer to them by index
  leaves : List LeafRef
  typeNames : List (QName × Nat)             -- global type names (complex and simple) for xsi:type
  gattrs : List AttrDecl
  deriving Repr, Inhabited

/-- element information item -/
inductive Elem where
  | mk (eid : Nat) (name : QName) (attrs : List Attr) (xsiType : Option QName) (xsiNil : Option Bool)
       (text : Option Nat) (children : List Elem)
  deriving Repr, Inhabited

def Elem.eid : Elem → Nat | .mk i _ _ _ _ _ _ => i
def Elem.name : Elem → QName | .mk _ n _ _ _ _ _ => n
def Elem.attrs : Elem → List Attr | .mk _ _ a _ _ _ _ => a
def Elem.xsiType : Elem → Option QName | .mk _ _ _ t _ _ _ => t
def Elem.xsiNil : Elem → Option Bool | .mk _ _ _ _ n _ _ => n
def Elem.text : Elem → Option Nat | .mk _ _ _ _ _ t _ => t
def Elem.children : Elem → List Elem | .mk _ _ _ _ _ _ c => c

def Schema.findCT (S : Schema) (t : Nat) : Option ComplexType := S.ctypes.find? (fun c => c.id == t)
def Schema.globalDecl (S : Schema) (q : QName) : Option Decl := S.decls.find? (fun d => d.global && d.name == q)
def Schema.typeByName (S : Schema) (q : QName) : Option Nat := (S.typeNames.find? (fun p => p.1 == q)).map (·.2)

/-- does leaf `l` accept a child named `x`: an element declaration accepts its own name and, if it is global,
    the names substitutable for it; a wildcard accepts the names whose namespace it allows -/
def Schema.leafAccepts (S : Schema) (x : QName) (l : Nat) : Bool :=
  match S.leaves.getD l (.wild (.list []) .skip) with
  | .decl k =>
    match S.decls[k]? with
    | none => false
    | some d => x == d.name || (d.global && substitutable S.env x d.name)
  | .wild c _ => c.allows x.ns

def particleLeaves : Particle Nat → List Nat
  | .eps => []
  | .fail => []
  | .leaf a => [a]
  | .seq p q => particleLeaves p ++ particleLeaves q
  | .choice p q => particleLeaves p ++ particleLeaves q
  | .all ms => ms.map (·.1)
  | .rep _ _ p => particleLeaves p

/-- attribute each child to a leaf of the content model (the context-determined declaration, §3.9.4): a word
    of leaf ids in the particle's symbolic language whose leaves accept the children pointwise.  Under Unique
    Particle Attribution it is unique. -/
def assign (S : Schema) : Particle Nat → List QName → Option (List Nat)
  | p, [] => if p.nullable then some [] else none
  | p, x :: w =>
    ((particleLeaves p).eraseDups.filter (fun l => S.leafAccepts x l)).firstM (fun l =>
      match assign S (p.deriv (fun a => a == l)) w with
      | some π => some (l :: π)
      | none => none)

/-- Type Derivation OK, as far as xsi:type needs it: `t` is `b` or derived from it, and no derivation step uses a
    method in `blocked` (§3.3.4 clause 4.3 with the union of the declaration's {disallowed substitutions} and
    the declared type's {prohibited substitutions}) -/
def derivationOk (S : Schema) (t b : Nat) (blocked : BlockSet) : Option Bool :=
  match derivedVia S.env S.env.types.length t b with
  | none => none
  | some (ms, _) => some (ms.all (fun m => !blocked.has m))

def typeAbstract (S : Schema) (t : Nat) : Bool :=
  match S.env.findType t with
  | some td => td.abstract
  | none => false

def typeBlock (S : Schema) (t : Nat) : BlockSet :=
  match S.env.findType t with
  | some td => td.block
  | none => {}

/-- the governing type and the violations of the xsi:type / abstract-type rules -/
def governingType (S : Schema) (declType : Nat) (declBlock : BlockSet) (xsiType : Option QName) : Nat × List String :=
  match xsiType with
  | none => (declType, if typeAbstract S declType then ["abstract-type"] else [])
  | some tq =>
    match S.typeByName tq with
    | none => (declType, ["xsi-type-unknown"])
    | some t =>
      if typeAbstract S t then (declType, ["xsi-type-abstract"]) else
      match derivationOk S t declType (declBlock.union (typeBlock S declType)) with
      | none => (declType, ["xsi-type-not-derived"])
      | some false => (declType, ["xsi-type-blocked"])
      | some true => (t, [])

/-- one record of the PSVI dump: element name, governing type id, attributes (defaulted ones flagged),
    character data after applying the element default -/
structure Info where
  eid : Nat                                  -- which element (the generator's numbering)
  name : QName
  type : Nat
  attrs : List (Attr × Bool)
  text : Option Nat
  deriving Repr, DecidableEq, Inhabited

/-- {abstract}, {nillable}, {disallowed substitutions} of a declaration: recorded in `S.env` for global
    declarations; local declarations are neither abstract nor nillable here and block nothing -/
def Schema.declEnv (S : Schema) (d : Decl) : Option ElemDecl := if d.global then S.env.findElem d.name else none
def Schema.declAbstract (S : Schema) (d : Decl) : Bool := match S.declEnv d with | some g => g.abstract | none => false
def Schema.declNillable (S : Schema) (d : Decl) : Bool := match S.declEnv d with | some g => g.nillable | none => false
def Schema.declBlock (S : Schema) (d : Decl) : BlockSet := match S.declEnv d with | some g => g.block | none => {}

/-- Assessment of one element against declaration `d`.  Fuel: the depth of the element tree. -/
def assess (S : Schema) : Nat → Decl → Elem → List String × List Info
  | 0, _, _ => (["fuel"], [])
  | fuel + 1, d, e =>
    let abstract := S.declAbstract d
    let nillable := S.declNillable d
    let block : BlockSet := S.declBlock d
    let v1 := if abstract then ["abstract-element"] else []
    -- xsi:nil (§3.3.4 clause 3)
    let v2 := match e.xsiNil with
      | none => []
      | some b =>
        if !nillable then ["nil-not-nillable"]
        else if b && (e.text.isSome || !e.children.isEmpty) then ["nil-not-empty"]
        else if b && (match d.vc with | .fixed _ => true | _ => false) then ["nil-with-fixed"]
        else []
    let nilled := nillable && e.xsiNil == some true
    let (gt, v3) := governingType S d.type block e.xsiType
    match S.findCT gt with
    | none =>
      -- simple type: no element children, no attributes (xsi:* are not in `attrs`), value constraint
      let v4 := if !e.children.isEmpty then ["simple-type-has-child"] else []
      let v5 := if !e.attrs.isEmpty then ["attr-on-simple-type"] else []
      let v6 := match d.vc, e.text with
        | .fixed f, some t => if !nilled && t != f then ["fixed-value-mismatch"] else []
        | _, _ => []
      let text := if nilled then e.text else match e.text, d.vc with
        | none, .default v => some v
        | none, .fixed v => some v
        | t, _ => t
      (v1 ++ v2 ++ v3 ++ v4 ++ v5 ++ v6, [⟨e.eid, e.name, gt, e.attrs.map (fun a => (a, false)), text⟩])
    | some ct =>
      let va := attrViolations ct.uses ct.wildcard S.gattrs e.attrs
      let names := e.children.map Elem.name
      let (vc, kids) : List String × Option (Particle Nat) :=
        if nilled then ([], none) else
        match ct.content with
        | .empty => ((if e.text.isSome || !e.children.isEmpty then ["content-not-empty"] else []), none)
        | .simple => ((if !e.children.isEmpty then ["simple-content-has-child"] else []) ++
            (match d.vc, e.text with
             | .fixed f, some t => if t != f then ["fixed-value-mismatch"] else []
             | _, _ => []), none)
        | .elementOnly p => ((if e.text.isSome then ["text-in-element-only"] else []) ++
            (if pMatch (fun x l => S.leafAccepts x l) p names then [] else ["content-model"]), some p)
        | .mixed p => ((if pMatch (fun x l => S.leafAccepts x l) p names then [] else ["content-model"]) ++
            (match d.vc, e.text, e.children.isEmpty with
             | .fixed f, some t, true => if t != f then ["fixed-value-mismatch"] else []
             | _, _, _ => []), some p)
      -- children: assessed by their context-determined declaration
      let sub : List (List String × List Info) :=
        match kids with
        | none => []
        | some p =>
          match assign S p names with
          | none => []                      -- content-model violation already recorded
          | some π =>
            (e.children.zip π).map (fun (c, l) =>
              match S.leaves.getD l (.wild (.list []) .skip) with
              | .decl k =>
                match S.decls[k]? with
                | none => (["bad-leaf"], [])
                | some dk =>
                  if c.name == dk.name then assess S fuel dk c
                  else match S.globalDecl c.name with           -- a member of dk's substitution group
                    | some gd => assess S fuel gd c
                    | none => (["bad-substitution"], [])
              | .wild _ .skip => ([], [])
              | .wild _ pc =>
                -- §3.10.1: strict — there must be a top-level declaration for the item, or the item must have an
                -- xsi:type, and the item must be valid as appropriate; lax — validated where a declaration (or an
                -- xsi:type) is available
                (match S.globalDecl c.name with
                 | some gd => assess S fuel gd c
                 | none =>
                   match c.xsiType with
                   | some tq =>
                     (match S.typeByName tq with
                      | some t =>
                        if typeAbstract S t then (["xsi-type-abstract"], []) else
                        -- no declaration: the xsi:type alone governs (no derivation check, no PSVI record compared)
                        ((assess S fuel { name := c.name, global := false, type := t }
                            (.mk c.eid c.name c.attrs none c.xsiNil c.text c.children)).1, [])
                      | none => (["xsi-type-unknown"], []))
                   | none => if pc == .strict then (["wildcard-strict-undeclared"], []) else ([], [])))
      let text := match ct.content with
        | .simple | .mixed _ =>
          if nilled then e.text else
          (match e.text, d.vc, e.children.isEmpty with
           | none, .default v, true => some v
           | none, .fixed v, true => some v
           | t, _, _ => t)
        | _ => e.text
      (v1 ++ v2 ++ v3 ++ va ++ vc ++ (sub.flatMap (·.1)),
       ⟨e.eid, e.name, gt, attrsWithDefaults ct.uses e.attrs, text⟩ :: sub.flatMap (·.2))

def Elem.depth : Elem → Nat
  | .mk _ _ _ _ _ _ cs => 1 + depthList cs
where depthList : List Elem → Nat
  | [] => 0
  | c :: cs => max c.depth (depthList cs)

/-- the judge: violations of the document rooted at `root` (the root must have a global declaration, §5.2) -/
def violations (S : Schema) (root : Elem) : List String × List Info :=
  match S.globalDecl root.name with
  | none => (["root-not-declared"], [])
  | some d => assess S (root.depth + 1) d root

def validDoc (S : Schema) (root : Elem) : Bool := (violations S root).1.isEmpty

end XV.Spec.XsdValid
