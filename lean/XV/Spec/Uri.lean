/-
C19 (URI part) — Spec: RFC 2396 §5.2 "Resolving Relative References to Absolute Form", over PARSED components.

Step 1 of §5.2 ("the URI reference is parsed into the potential four components and fragment identifier",
appendix B regular expression) is the input format: a `Uri` is the parsed reference.  A component is
*undefined* (`none`) or *defined* (`some s`, possibly the empty string) exactly as in appendix B.

The path is kept as its list of segments (RFC 2396 §3.3  `path_segments = segment *( "/" segment )`):

    ""        absPath = false, segs = []            (empty path)
    "g"       absPath = false, segs = ["g"]
    "../g"    absPath = false, segs = ["..","g"]
    "/"       absPath = true,  segs = [""]
    "/b/c/d"  absPath = true,  segs = ["b","c","d"]
    "/b/c/"   absPath = true,  segs = ["b","c",""]  (a trailing "" is a trailing slash)

so "a complete path segment" of step 6 is an element of the list and "X/" means "X is not the last element".
A `Uri` is well formed when `absPath = true → segs ≠ []`.

Definitions only; no Mathlib.  Everything is executable (`decide`, the driver op `S`).
-/
namespace XV.Spec.Uri

abbrev Seg := String

structure Uri where
  scheme : Option String
  authority : Option String
  absPath : Bool
  segs : List Seg
  query : Option String
  fragment : Option String
  deriving Repr, DecidableEq, Inhabited

/-! ### Step 6: merging and removal of dot segments (buffer = list of segments) -/

/-- 6a "All but the last segment of the base URI's path component is copied to the buffer" and
    6b "The reference's path component is appended to the buffer string."
    (`"/b/c/d;p"`, `"g"` ↦ `"/b/c/g"`;  with an empty reference path the buffer is `"/b/c/"`.) -/
def merge (baseSegs relSegs : List Seg) : List Seg :=
  baseSegs.dropLast ++ (if relSegs.isEmpty then [""] else relSegs)

/-- 6c "All occurrences of "./", where "." is a complete path segment, are removed from the buffer string."
    (every "." that is not the last segment) -/
def step6c : List Seg → List Seg
  | [] => []
  | [s] => [s]
  | s :: t :: r => if s = "." then step6c (t :: r) else s :: step6c (t :: r)

/-- 6d "If the buffer string ends with "." as a complete path segment, that "." is removed."
    (the slash before it stays: the last segment becomes empty) -/
def step6d : List Seg → List Seg
  | [] => []
  | [s] => if s = "." then [""] else [s]
  | s :: t :: r => s :: step6d (t :: r)

/-- the leftmost occurrence of "<segment>/../", where <segment> is a complete path segment not equal to "..",
    is removed (`none`: no occurrence).  ".." must be followed by a slash, i.e. not be the last segment. -/
def removeLeftmost : List Seg → Option (List Seg)
  | [] => none
  | [_] => none
  | s :: d :: t =>
    if s ≠ ".." ∧ d = ".." ∧ t ≠ [] then some t
    else (removeLeftmost (d :: t)).map (s :: ·)

/-- "Removal of these path segments is performed iteratively, removing the leftmost matching pattern on each
    iteration, until no matching pattern remains."  (`n` bounds the number of iterations.) -/
def iterate : Nat → List Seg → List Seg
  | 0, l => l
  | n + 1, l =>
    match removeLeftmost l with
    | none => l
    | some l' => iterate n l'

/-- 6e "All occurrences of "<segment>/../", where <segment> is a complete path segment not equal to "..",
    are removed from the buffer string."  Every removal shortens the list by two, so `l.length` iterations
    are enough (`XV.Props.C19Uri.step6e_complete`: no occurrence is left). -/
def step6e (l : List Seg) : List Seg := iterate l.length l

/-- 6f "If the buffer string ends with "<segment>/..", where <segment> is a complete path segment not equal
    to "..", that "<segment>/.." is removed."  (the slash before it stays) -/
def step6f : List Seg → List Seg
  | [] => []
  | [s] => [s]
  | [s, d] => if s ≠ ".." ∧ d = ".." then [""] else [s, d]
  | s :: t :: d :: r => s :: step6f (t :: d :: r)

/-- steps 6c–6f.  6g: "If the resulting buffer string still begins with one or more complete path segments of
    "..", then the reference is considered to be in error.  Implementations may handle this error by retaining
    these components in the resolved path" — the first alternative, as in appendix C.2
    (`"../../../g"` ↦ `"http://a/../g"`): nothing further is done. -/
def removeDotSegments (l : List Seg) : List Seg := step6f (step6e (step6d (step6c l)))

/-! ### Steps 2–6 -/

/-- RFC 2396 §5.2, `rel` resolved against `base`. -/
def resolve (base rel : Uri) : Uri :=
  -- 2. "If the path component is empty and the scheme, authority, and query components are undefined, then it
  --     is a reference to the current document and we are done."  (only the fragment is the reference's own)
  if rel.segs.isEmpty && rel.scheme.isNone && rel.authority.isNone && rel.query.isNone then
    { base with fragment := rel.fragment }
  -- 3. "If the scheme component is defined, indicating that the reference starts with a scheme name, then the
  --     reference is interpreted as an absolute URI and we are done."
  else if rel.scheme.isSome then rel
  -- 4. "If the authority component is defined, then the reference is a network-path and we skip to step 7."
  --    (3. "Otherwise, the reference URI's scheme is inherited from the base URI's scheme component.")
  else if rel.authority.isSome then { rel with scheme := base.scheme }
  -- 5. "If the path component begins with a slash character ("/"), then the reference is an absolute-path and
  --     we skip to step 7."  (4. "Otherwise, the reference URI's authority is inherited from the base URI's".)
  else if rel.absPath then { rel with scheme := base.scheme, authority := base.authority }
  -- 6. "resolving a relative-path reference": the buffer starts with the base path, so it is absolute iff the
  --    base path is.  Query and fragment are the reference's own (step 2, last sentence).
  else { rel with scheme := base.scheme, authority := base.authority, absPath := base.absPath,
                  segs := removeDotSegments (merge base.segs rel.segs) }

/-! ### Step 7: recomposition -/

def pathString (u : Uri) : String :=
  (if u.absPath then "/" else "") ++ "/".intercalate u.segs

/-- 7. "The resulting URI components, including any inherited from the base URI, are recombined to give the
    absolute form of the URI reference."  (the pseudocode of step 7, line by line) -/
def recompose (u : Uri) : String :=
  (match u.scheme with | some s => s ++ ":" | none => "")            -- if scheme is defined then append scheme ":"
  ++ (match u.authority with | some a => "//" ++ a | none => "")     -- if authority is defined then append "//" authority
  ++ pathString u                                                    -- append path
  ++ (match u.query with | some q => "?" ++ q | none => "")          -- if query is defined then append "?" query
  ++ (match u.fragment with | some f => "#" ++ f | none => "")       -- if fragment is defined then append "#" fragment

/-- `absPath = true → segs ≠ []` -/
def Uri.WF (u : Uri) : Bool := !u.absPath || !u.segs.isEmpty

end XV.Spec.Uri
