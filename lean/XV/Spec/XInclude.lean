/-
C20 — Spec of XInclude processing (XInclude 1.0 §3, §4; RFC 2396 §5.2 for relative references).

Abstract world
  `URI`   an absolute location: the list of path segments below an (abstract) root, last segment = file name
          (`""` for a directory URI such as `d1/`).  Always normalised (no `.`/`..`).
  `Ref`   a relative reference as written in `href` / `xml:base`: path segments, `..` and `.` allowed anywhere
          (so `a/../b.xml` and `b.xml` are different spellings of one target).
  `resolve base r`   RFC 2396 §5.2: drop the last segment of `base`, append `r`, remove `.` and `<seg>/..`.
  `FS`    a finite file map (association list) from URIs to files: XML documents (a list of top-level
          nodes: prolog comments/PIs, the document element, trailing misc) or text files (already decoded
          characters — the encoding is the business of the harness, not of the tree semantics).
  `Node`  element / character data, comment, PI / `xi:include` in valid usage (`incl`) / `xi:include` in invalid usage
          (`bad`) / an `xi:fallback` element met outside its place (`fallback`).

Declarative semantics
  `substitute fs u`  the source document with every `xi:include` replaced by what it designates, recursively:
          parse="xml": the processed top-level nodes of the target; parse="text": one text node;
          target not obtainable: the processed children of `xi:fallback`; no fallback: error class `noFallback`
          (the element stays).  Invalid usage: error class `invalid`.
          Every element of the result carries its RESOLVED base URI (`Base.abs`): the base it has in the document
          it was written in (document URI modified by the `xml:base` attributes above it).  "Relative references
          inside included content resolve to the same targets" is exactly: these bases are what comes out.
  `edges fs u`       the documents that processing `u` includes (parse="xml" targets of the includes that are live:
          not inside an unused fallback, not inside an element left alone after an error).
  `Acyclic fs u`     no inclusion loop is reachable from `u` (accessibility of `u` in the `edges` graph).
  `Reach fs u v`     reflexive-transitive closure of `edges`.

`substitute` is executable (the judge used by tools/props/c20.py).  It recurses into included documents with a
fuel of (number of files + 1) levels, enough for every acyclic map (a chain of distinct documents; that the budget
is not exhausted on an acyclic map is part of XV.Props.C20.acyclic_eq_subst); on a cyclic map it would report the
pseudo class `fuel` — the driver asks `cyclicB` first and does not call it then.

Definitions only; no Mathlib.
-/
namespace XV.Spec.XInclude

abbrev Seg := String
abbrev URI := List Seg
abbrev Ref := List Seg

/-! ### RFC 2396 §5.2 on segment lists -/

/-- one step of dot-segment removal; the stack is kept reversed; `..` above the root is dropped -/
def normStep (stk : List Seg) (s : Seg) : List Seg :=
  if s = ".." then stk.tail else if s = "." then stk else s :: stk

def normRev (stk : List Seg) (p : List Seg) : List Seg := p.foldl normStep stk

def normalize (p : List Seg) : List Seg := (normRev [] p).reverse

/-- a path whose last segment is `.` or `..` denotes a directory (RFC 2396 §5.2 6d/6f): make that explicit -/
def fixRef (r : Ref) : Ref :=
  match r.getLast? with
  | some s => if s = ".." ∨ s = "." then r ++ [""] else r
  | none => r

/-- everything up to and including the last `/` -/
def dir (u : List Seg) : List Seg := u.dropLast

/-- resolve a relative reference against an absolute base; the empty reference is the base itself -/
def resolve (base : URI) (r : Ref) : URI :=
  if r = [] then base else normalize (dir base ++ fixRef r)

/-! ### documents -/

/-- the `xml:base` information of an element: none / a relative reference as written / (in results) the resolved base -/
inductive Base where
  | inherit
  | rel (r : Ref)
  | abs (u : URI)
  deriving Repr, DecidableEq, Inhabited

def resolveBase (pb : URI) : Base → URI
  | .inherit => pb
  | .rel r => resolve pb r
  | .abs u => u

inductive Parse where
  | dflt      -- no parse attribute (means xml)
  | xml
  | text
  deriving Repr, DecidableEq, Inhabited

inductive LeafKind where
  | text | comment | pi
  deriving Repr, DecidableEq, Inhabited

/-- the ways an `xi:include` element can be unusable (XInclude 1.0 §3.1, §4.2) -/
inductive BadKind where
  | noHref            -- no href (and no xpointer support)
  | xpointer          -- xpointer present (with parse="text" a fatal error; otherwise unsupported here)
  | badParse          -- parse value other than xml / text
  | multiFallback     -- more than one xi:fallback child
  | disallowedChild   -- an xi:include (or other XInclude-namespace element) as child
  deriving Repr, DecidableEq, Inhabited

inductive Node where
  /-- ordinary element: qualified name, attributes other than xml:base / xmlns*, xml:base, children -/
  | elem (name : String) (attrs : List (String × String)) (base : Base) (kids : List Node)
  /-- text (merged CDATA), comment or processing instruction (target used for PIs only); code points -/
  | leaf (k : LeafKind) (target : String) (cs : List Nat)
  /-- `xi:include` in valid usage: href, parse, encoding attribute, its own xml:base, whether an xi:fallback child
      exists, and that child's children -/
  | incl (href : Ref) (parse : Parse) (enc : Option String) (base : Base) (hasFb : Bool) (fb : List Node)
  /-- `xi:include` in invalid usage: what is wrong, its attributes as written (for the dump), xml:base, children -/
  | bad (k : BadKind) (attrs : List (String × String)) (base : Base) (kids : List Node)
  /-- an `xi:fallback` element that is not the fallback of a valid include -/
  | fallback (base : Base) (kids : List Node)
  deriving Repr, Inhabited

inductive File where
  /-- an XML document: top-level nodes, and its characters when read as text (used for parse="text" only) -/
  | xml (doc : List Node) (src : List Nat)
  | text (cs : List Nat)
  deriving Repr, Inhabited

abbrev FS := List (URI × File)

def FS.get (fs : FS) (u : URI) : Option File := List.lookup u fs

/-- the XML document at `u`, if there is one -/
def FS.doc (fs : FS) (u : URI) : Option (List Node) :=
  match fs.get u with
  | some (.xml d _) => some d
  | _ => none

/-- the characters obtained by reading `u` as text -/
def FS.chars (fs : FS) (u : URI) : Option (List Nat) :=
  match fs.get u with
  | some (.xml _ s) => some s
  | some (.text cs) => some cs
  | none => none

/-- encodings the text inclusion may name (anything else: the resource cannot be read) -/
def encSupported : Option String → Bool
  | none => true
  | some e => e ∈ ["UTF-8", "UTF-16LE", "UTF-16BE", "ISO-8859-1", "US-ASCII"]

inductive ErrClass where
  | circular      -- inclusion loop / document includes itself
  | noFallback    -- resource error and no xi:fallback
  | invalid       -- invalid xi:include / xi:fallback usage
  | fuel          -- (pseudo) recursion budget of `substitute` exhausted: the map is cyclic
  deriving Repr, DecidableEq, Inhabited

structure SRes where
  nodes : List Node
  errs : List ErrClass
  deriving Repr, Inhabited

def SRes.append (a b : SRes) : SRes := ⟨a.nodes ++ b.nodes, a.errs ++ b.errs⟩

/-- what an include obtains from its target -/
inductive Fetched where
  | doc (d : List Node)      -- parse="xml": the target is an XML document
  | text (cs : List Nat)     -- parse="text": its characters
  | none                     -- the resource cannot be obtained
  deriving Repr, Inhabited

def fetch (fs : FS) (t : URI) (parse : Parse) (enc : Option String) : Fetched :=
  match parse with
  | .text =>
      match (if encSupported enc then fs.chars t else none) with
      | some cs => .text cs
      | none => .none
  | _ =>
      match fs.doc t with
      | some d => .doc d
      | none => .none

/-- the target of an include written in a context whose base is `pb` -/
def targetOf (pb : URI) (ib : Base) (href : Ref) : URI := resolve (resolveBase pb ib) href

/-! ### resolved bases of content that is left alone -/

mutual
/-- replace every `xml:base` by the resolved base (no inclusion is performed) -/
def annotate (pb : URI) : Node → Node
  | .elem n a b kids => .elem n a (.abs (resolveBase pb b)) (annotateL (resolveBase pb b) kids)
  | .leaf k t cs => .leaf k t cs
  | .incl h p e b hf fb => .incl h p e (.abs (resolveBase pb b)) hf (annotateL (resolveBase pb b) fb)
  | .bad k a b kids => .bad k a (.abs (resolveBase pb b)) (annotateL (resolveBase pb b) kids)
  | .fallback b kids => .fallback (.abs (resolveBase pb b)) (annotateL (resolveBase pb b) kids)
def annotateL (pb : URI) : List Node → List Node
  | [] => []
  | n :: ns => annotate pb n :: annotateL pb ns
end

/-! ### the declarative substitution -/

mutual
/-- `inc u` gives the substituted content of the XML document at `u` -/
def substNode (fs : FS) (inc : URI → List Node → SRes) (pb : URI) : Node → SRes
  | .elem n a b kids =>
      let r := substList fs inc (resolveBase pb b) kids
      ⟨[.elem n a (.abs (resolveBase pb b)) r.nodes], r.errs⟩
  | .leaf k t cs => ⟨[.leaf k t cs], []⟩
  | .incl href parse enc ib hasFb fb =>
      let t := targetOf pb ib href
      match fetch fs t parse enc with
      | .doc d => inc t d
      | .text cs => ⟨[.leaf .text "" cs], []⟩
      | .none =>
          if hasFb then substList fs inc (resolveBase pb ib) fb
          else ⟨[annotate pb (.incl href parse enc ib hasFb fb)], [.noFallback]⟩
  | .bad k a b kids => ⟨[annotate pb (.bad k a b kids)], [.invalid]⟩
  | .fallback b kids => ⟨[annotate pb (.fallback b kids)], [.invalid]⟩
def substList (fs : FS) (inc : URI → List Node → SRes) (pb : URI) : List Node → SRes
  | [] => ⟨[], []⟩
  | n :: ns => (substNode fs inc pb n).append (substList fs inc pb ns)
end

def substFuel (fs : FS) : Nat → URI → List Node → SRes
  | 0 => fun _ _ => ⟨[], [.fuel]⟩
  | n + 1 => fun u d => substList fs (substFuel fs n) u d

/-- the number of nested inclusion levels `substitute` follows: more than any chain of distinct documents -/
def budget (fs : FS) : Nat := fs.length + 1

/-- The specified merged tree (and the error classes the recommendation demands) for the document at `u`. -/
def substitute (fs : FS) (u : URI) : SRes :=
  match fs.doc u with
  | some d => substFuel fs (budget fs) u d
  | none => ⟨[], []⟩

/-! ### the inclusion graph -/

mutual
/-- XML documents included by live includes of a node in base context `pb` -/
def edgesN (fs : FS) (pb : URI) : Node → List URI
  | .elem _ _ b kids => edgesL fs (resolveBase pb b) kids
  | .leaf _ _ _ => []
  | .incl href parse enc ib hasFb fb =>
      let t := targetOf pb ib href
      match fetch fs t parse enc with
      | .doc _ => [t]
      | .text _ => []
      | .none => if hasFb then edgesL fs (resolveBase pb ib) fb else []
  | .bad _ _ _ _ => []
  | .fallback _ _ => []
def edgesL (fs : FS) (pb : URI) : List Node → List URI
  | [] => []
  | n :: ns => edgesN fs pb n ++ edgesL fs pb ns
end

def edges (fs : FS) (u : URI) : List URI :=
  match fs.doc u with
  | some d => edgesL fs u d
  | none => []

/-- `u` is accessible: every document it includes is, i.e. no inclusion loop can be reached from `u`. -/
inductive Acyclic (fs : FS) : URI → Prop where
  | mk (u : URI) : (∀ v, v ∈ edges fs u → Acyclic fs v) → Acyclic fs u

inductive Reach (fs : FS) : URI → URI → Prop where
  | refl (u : URI) : Reach fs u u
  | step {u v w : URI} : v ∈ edges fs u → Reach fs v w → Reach fs u w

/-! ### executable cyclicity test (used by the driver to choose the judgement; polynomial) -/

def insertNew (acc : List URI) : List URI → List URI
  | [] => acc
  | x :: xs => if x ∈ acc then insertNew acc xs else insertNew (acc ++ [x]) xs

/-- `n` rounds of adding the successors of everything found so far -/
def closure (fs : FS) : Nat → List URI → List URI
  | 0, s => s
  | n + 1, s => closure fs n (insertNew s (s.flatMap (edges fs)))

/-- everything reachable from `u` in one or more steps -/
def reachPlus (fs : FS) (u : URI) : List URI := closure fs (fs.length + 1) (insertNew [] (edges fs u))

/-- some document reachable from `u` (or `u` itself) lies on an inclusion loop -/
def cyclicB (fs : FS) (u : URI) : Bool :=
  (u :: reachPlus fs u).any (fun v => (reachPlus fs v).contains v)

end XV.Spec.XInclude
