/-
Declarative layout of the serialisation stream (what the byte stream of an engine IS, independent of buffering):
every aligned primitive is placed at the next multiple of its size counted from the start of the stream, padded with
zero bytes; raw blocks and string data follow contiguously; a string is its length word(s) followed by its data,
a null string is the single word `noDataFollowed`.  No Mathlib.
-/
import XV.Model.SerEngine
namespace XV.Spec.SerStream
open XV.Model.SerEngine XV.Gen.SerConsts

def layoutPrim (st : List Nat) (d : PrimDesc) (v : Nat) : List Nat :=
  st ++ zeros (padOf d st.length) ++ toLE d.adv v

def layoutUL (st : List Nat) (v : Nat) : List Nat := layoutPrim st Ty.ulong.w v

def layoutVal (st : List Nat) : Val → List Nat
  | .prim t v => layoutPrim st t.w v
  | .raw bs => st ++ bs
  | .str none => layoutUL st noDataFollowed
  | .str (some us) => layoutUL st us.length ++ unitsToBytes us
  | .strL none => layoutUL st noDataFollowed
  | .strL (some (us, bl)) => layoutUL (layoutUL st bl) us.length ++ unitsToBytes us
  | .bstr none => layoutUL st noDataFollowed
  | .bstr (some bs) => layoutUL st bs.length ++ bs
  | .bstrL none => layoutUL st noDataFollowed
  | .bstrL (some (bs, bl)) => layoutUL (layoutUL st bl) bs.length ++ bs

def layout (vs : List Val) : List Nat := vs.foldl layoutVal []

/-- values whose placement does not depend on the buffer size: everything except the unaligned 8-byte
`writeSize`/`writeInt64`/`writeUInt64` -/
def flat : Val → Prop
  | .prim t _ => t.w.align ≠ 0 ∨ t.w.adv = 1
  | _ => True

instance (v : Val) : Decidable (flat v) := by
  cases v <;> unfold flat <;> infer_instance

end XV.Spec.SerStream
