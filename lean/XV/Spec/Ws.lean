/-
Spec: XML Schema Part 2 §4.3.6 whiteSpace (replace, collapse) and §3.2.2 boolean.  XMLCh units are `Nat`s.

  replace   All occurrences of #x9 (tab), #xA (line feed) and #xD (carriage return) are replaced with #x20.
  collapse  After the processing implied by replace, contiguous sequences of #x20's are collapsed to a single
            #x20, and leading and trailing #x20's are removed.
Stated here without loops over flags: the collapsed string is the list of maximal space-free tokens of the
replaced string, joined by single spaces.
-/
namespace XV.Spec.Ws

def sp : Nat := 0x20

def replaceCh (c : Nat) : Nat := if c = 0x9 ∨ c = 0xA ∨ c = 0xD then sp else c
def replaceSpec (s : List Nat) : List Nat := s.map replaceCh

/-- maximal non-empty runs of non-#x20 units; `cur` is the run being read (reversed) -/
def tokensAux : List Nat → List Nat → List (List Nat)
  | [], cur => if cur.isEmpty then [] else [cur.reverse]
  | c :: r, cur =>
    if c = sp then (if cur.isEmpty then tokensAux r [] else cur.reverse :: tokensAux r [])
    else tokensAux r (c :: cur)

def tokens (s : List Nat) : List (List Nat) := tokensAux s []

def joinSp : List (List Nat) → List Nat
  | [] => []
  | [t] => t
  | t :: u :: r => t ++ sp :: joinSp (u :: r)

def collapseSpec (s : List Nat) : List Nat := joinSp (tokens (replaceSpec s))

/-- §3.2.2.1: the lexical space of boolean is {true, false, 1, 0} -/
def boolLex (s : List Nat) : Option Bool :=
  if s = [0x74, 0x72, 0x75, 0x65] ∨ s = [0x31] then some true
  else if s = [0x66, 0x61, 0x6C, 0x73, 0x65] ∨ s = [0x30] then some false
  else none

/-- canonical representation: true / false -/
def boolCanon (b : Bool) : List Nat := if b then [0x74, 0x72, 0x75, 0x65] else [0x66, 0x61, 0x6C, 0x73, 0x65]

end XV.Spec.Ws
