/-
Spec: what an XML processor reads back from serialised character data and attribute values
(XML 1.0 5th ed. / XML 1.1 2nd ed.: 2.2 Characters, 2.4 Character Data, 2.11 End-of-Line Handling,
3.3.3 Attribute-Value Normalization, 4.1 Character and Entity References, 4.6 Predefined Entities).

Strings are lists of UTF-16 code units (`Nat`), as in the DOM.  The reader is one left-to-right pass
with a small state, so it is total, executable and structurally recursive:

* a literal CR, CR LF (and under XML 1.1 CR NEL, NEL, LSEP) is read as one LF        (2.11)
* `&amp; &lt; &gt; &quot; &apos;` and `&#N;` / `&#xH;` are replaced; the replacement of a character
  reference is NOT subject to line-end or attribute-value normalisation               (4.1, 3.3.3)
* in an attribute value each literal TAB / LF / CR (after line-end handling) is read as a space
* `<`, a bare `&`, `]]>` in content, the closing quote in an attribute value, a character that is
  not a Char (or, under 1.1, a RestrictedChar written literally), an unpaired surrogate, a reference
  to a non-Char: not well-formed, `none`.
No Mathlib.
-/
namespace XV.Spec.Unescape

def isChar10 (c : Nat) : Bool :=
  c == 9 || c == 10 || c == 13 || (0x20 ≤ c && c ≤ 0xD7FF) || (0xE000 ≤ c && c ≤ 0xFFFD)
    || (0x10000 ≤ c && c ≤ 0x10FFFF)

def isChar11 (c : Nat) : Bool :=
  (1 ≤ c && c ≤ 0xD7FF) || (0xE000 ≤ c && c ≤ 0xFFFD) || (0x10000 ≤ c && c ≤ 0x10FFFF)

def isRestricted11 (c : Nat) : Bool :=
  (1 ≤ c && c ≤ 8) || (0xB ≤ c && c ≤ 0xC) || (0xE ≤ c && c ≤ 0x1F) || (0x7F ≤ c && c ≤ 0x84)
    || (0x86 ≤ c && c ≤ 0x9F)

/-- a scalar value that a character reference may denote -/
def refOK (v11 : Bool) (c : Nat) : Bool := if v11 then isChar11 c else isChar10 c
/-- a scalar value that may stand literally in the document -/
def literalOK (v11 : Bool) (c : Nat) : Bool :=
  if v11 then isChar11 c && !isRestricted11 c else isChar10 c

def highSurr (c : Nat) : Bool := 0xD800 ≤ c && c ≤ 0xDBFF
def lowSurr (c : Nat) : Bool := 0xDC00 ≤ c && c ≤ 0xDFFF

/-- D91 -/
def utf16 (n : Nat) : List Nat :=
  if n < 0x10000 then [n] else [0xD800 + (n - 0x10000) / 1024, 0xDC00 + (n - 0x10000) % 1024]

def scalarOfPair (h l : Nat) : Nat := 0x10000 + (h - 0xD800) * 1024 + (l - 0xDC00)

/-- The strings the property quantifies over: well-formed UTF-16 whose scalar values may all occur in a
document of the given version (as a literal or, under 1.1, at least as a character reference). -/
def legalUnits (v11 : Bool) : List Nat → Bool
  | [] => true
  | [c] => !highSurr c && !lowSurr c && c < 0x10000 && refOK v11 c
  | c :: n :: t =>
    if highSurr c then lowSurr n && legalUnits v11 t
    else !lowSurr c && c < 0x10000 && refOK v11 c && legalUnits v11 (n :: t)

/-! ### references -/

def decDigit (c : Nat) : Option Nat := if 48 ≤ c ∧ c ≤ 57 then some (c - 48) else none
def hexDigit (c : Nat) : Option Nat :=
  if 48 ≤ c ∧ c ≤ 57 then some (c - 48)
  else if 65 ≤ c ∧ c ≤ 70 then some (c - 55)
  else if 97 ≤ c ∧ c ≤ 102 then some (c - 87)
  else none

def numAcc (digit : Nat → Option Nat) (radix : Nat) : List Nat → Nat → Option Nat
  | [], a => some a
  | d :: t, a => match digit d with
    | some v => numAcc digit radix t (a * radix + v)
    | none => none

/-- the body between `&` and `;` -/
def decodeRef (v11 : Bool) (body : List Nat) : Option (List Nat) :=
  match body with
  | 35 :: 120 :: ds =>     -- "#x"
    if ds.isEmpty then none else
    match numAcc hexDigit 16 ds 0 with
    | some v => if refOK v11 v then some (utf16 v) else none
    | none => none
  | 35 :: ds =>            -- "#"
    if ds.isEmpty then none else
    match numAcc decDigit 10 ds 0 with
    | some v => if refOK v11 v then some (utf16 v) else none
    | none => none
  | _ =>
    if body = [97, 109, 112] then some [38]            -- amp
    else if body = [108, 116] then some [60]           -- lt
    else if body = [103, 116] then some [62]           -- gt
    else if body = [113, 117, 111, 116] then some [34] -- quot
    else if body = [97, 112, 111, 115] then some [39]  -- apos
    else none                                          -- no other entity is declared

/-! ### the reader -/

inductive St
  | norm (afterCR : Bool) (brackets : Nat)   -- brackets: number (capped at 2) of `]` just read
  | ref (body : List Nat)
  | hi (h : Nat)
  deriving DecidableEq, Repr

/-- `attr = true`: the text between the double quotes of an attribute value (CDATA type). -/
def readChars (v11 attr : Bool) : List Nat → St → Option (List Nat)
  | [], .norm _ _ => some []
  | [], .ref _ => none
  | [], .hi _ => none
  | c :: t, .ref body =>
    if c = 59 then
      match decodeRef v11 body with
      | some us => (readChars v11 attr t (.norm false 0)).map (us ++ ·)
      | none => none
    else readChars v11 attr t (.ref (body ++ [c]))
  | c :: t, .hi h =>
    if lowSurr c then (readChars v11 attr t (.norm false 0)).map ([h, c] ++ ·) else none
  | c :: t, .norm afterCR br =>
    let nl := if attr then 32 else 10
    if afterCR && (c = 10 || (v11 && c = 0x85)) then readChars v11 attr t (.norm false 0)
    else if c = 38 then readChars v11 attr t (.ref [])
    else if c = 60 then none
    else if attr && c = 34 then none
    else if !attr && c = 62 && br ≥ 2 then none
    else if c = 13 then (readChars v11 attr t (.norm true 0)).map (nl :: ·)
    else if c = 10 || (v11 && (c = 0x85 || c = 0x2028)) then (readChars v11 attr t (.norm false 0)).map (nl :: ·)
    else if attr && c = 9 then (readChars v11 attr t (.norm false 0)).map (32 :: ·)
    else if highSurr c then readChars v11 attr t (.hi c)
    else if lowSurr c then none
    else if literalOK v11 c then
      (readChars v11 attr t (.norm false (if c = 93 then min 2 (br + 1) else 0))).map (c :: ·)
    else none

/-- character data between two tags -/
def parseText (v11 : Bool) (s : List Nat) : Option (List Nat) := readChars v11 false s (.norm false 0)
/-- the normalised value of a (CDATA-typed) attribute written between double quotes -/
def parseAttr (v11 : Bool) (s : List Nat) : Option (List Nat) := readChars v11 true s (.norm false 0)

/-! ### CDATA sections: the text between `<![CDATA[` and the first `]]>`; only line ends are normalised -/

def startsWith (p : List Nat) (l : List Nat) : Bool := p.isPrefixOf l

def containsSub (p : List Nat) : List Nat → Bool
  | [] => p.isEmpty
  | c :: t => startsWith p (c :: t) || containsSub p t

end XV.Spec.Unescape
