/-
C14 — declarative side.  What DOM Level 2 Traversal-Range requires of live views, stated on lists:
  * `docOrder`   : document order of a subtree (pre-order of the child lists), the list every view is a view OF;
  * `matching`   : getElementsByTagName = the matching elements of `docOrder`, in order (DOM Core);
  * NodeIterator : a position in `docOrder root` given by a reference node and a before/after flag (Traversal 1.1.1),
                   `specNext` / `specPrev` as list searches, `specRemove` = the robustness rule of 1.1.1.2;
  * TreeWalker   : the logical view `visibleKids` / `visibleOrder` — FILTER_SKIP nodes are transparent, FILTER_REJECT
                   prunes the subtree (Traversal 1.2), whatToShow first;
  * Range        : boundary points, `validRange`, the fix-up rules of Range 2.12 per boundary point (`bpInsertedNode`
                   …), the position `bpKey` of a boundary point in the linearised tree (for the order theorems), and the
                   selected character data `rangeText`.
-/
import XV.Model.Views
import XV.Spec.Dom
namespace XV.Spec.Views
open XV.Model.Dom XV.Model.Views

-- ------------------------------------------------------------------ document order

/-- pre-order of the subtree of `n`; `fuel` bounds the depth -/
def docOrderFuel (s : Store) : Nat → NodeId → List NodeId
  | 0, n => [n]
  | f + 1, n => n :: (kids s n).flatMap (docOrderFuel s f)

/-- document order of the subtree rooted at `n` (node itself first) -/
def docOrder (s : Store) (n : NodeId) : List NodeId := docOrderFuel s s.size n

/-- getElementsByTagName(tag) on `root`: the matching descendant elements in document order (the root itself excluded) -/
def matching (s : Store) (tag : List Nat) (root : NodeId) : List NodeId :=
  (docOrder s root).tail.filter (tagMatches s tag)

-- ------------------------------------------------------------------ list positions

/-- element that follows `x` in `l` -/
def succIn : List NodeId → NodeId → Option NodeId
  | [], _ => none
  | y :: ys, x => if y = x then ys.head? else succIn ys x

/-- element that precedes `x` in `l` -/
def predIn : List NodeId → NodeId → Option NodeId
  | [], _ => none
  | [_], _ => none
  | y :: z :: zs, x => if z = x then some y else predIn (z :: zs) x

/-- the part of `l` after the contiguous block `blk` that starts at `blk.head` -/
def afterBlock (l blk : List NodeId) : List NodeId :=
  match blk with
  | [] => l
  | b :: _ => (l.dropWhile (· != b)).drop blk.length

-- ------------------------------------------------------------------ NodeIterator (DOM Traversal 1.1.1)

/-- Position of an iterator in the list it iterates over: the reference node and whether the iterator stands after it
(`ref = none`: before the first node). -/
structure Pos where
  ref : Option NodeId
  after : Bool
  deriving DecidableEq, Repr

/-- the nodes the iterator has still in front of it -/
def Pos.ahead (l : List NodeId) (p : Pos) : List NodeId :=
  match p.ref with
  | none => l
  | some x => if p.after then (l.dropWhile (· != x)).drop 1 else l.dropWhile (· != x)

/-- the nodes behind it, nearest first -/
def Pos.behind (l : List NodeId) (p : Pos) : List NodeId :=
  match p.ref with
  | none => []
  | some x => if p.after then ((l.takeWhile (· != x)) ++ [x]).reverse else (l.takeWhile (· != x)).reverse

/-- nextNode(): the first accepted node ahead becomes the reference node, the iterator stands after it.
(When there is none the C++ still records the forward direction; no accepted node lies between the two positions.) -/
def specNext (acc : NodeId → Bool) (l : List NodeId) (p : Pos) : Pos × Option NodeId :=
  match (p.ahead l).find? acc with
  | some x => (⟨some x, true⟩, some x)
  | none => (⟨p.ref, true⟩, none)

/-- previousNode(): the first accepted node behind becomes the reference node, the iterator stands before it. -/
def specPrev (acc : NodeId → Bool) (l : List NodeId) (p : Pos) : Pos × Option NodeId :=
  match p.ref with
  | none => (p, none)
  | some _ =>
    match (p.behind l).find? acc with
    | some x => (⟨some x, false⟩, some x)
    | none => (⟨p.ref, false⟩, none)

/-- Traversal 1.1.1.2: the subtree `blk` (a contiguous block of `l` that does not contain the root `l.head`) is about to be
removed.  If the reference node is in it, "a different node is selected as the reference node": when the iterator stands
after the reference node, the nearest node before the block; when it stands before it, the nearest node after the block —
and if there is none (the block ends the list), the nearest node before the block, the iterator now standing after it. -/
def specRemove (l blk : List NodeId) (p : Pos) : Pos :=
  match p.ref, blk with
  | some x, b :: _ =>
    if blk.contains x then
      if p.after then ⟨predIn l b, true⟩
      else match (afterBlock l blk).head? with
        | some y => ⟨some y, false⟩
        | none => ⟨predIn l b, true⟩
    else p
  | _, _ => p

-- ------------------------------------------------------------------ TreeWalker (DOM Traversal 1.2): the logical view

/-- visible children of a node in the logical view of the children `l`: accepted children, with the visible children of
skipped children in their place; rejected children vanish with their subtrees -/
def visibleKidsFuel (s : Store) (w filt : Nat) : Nat → List NodeId → List NodeId
  | 0, _ => []
  | f + 1, l => l.flatMap fun c =>
    match verdict s w filt c with
    | .accept => [c]
    | .skip => visibleKidsFuel s w filt f (kids s c)
    | .reject => []

def visibleKids (s : Store) (w filt : Nat) (n : NodeId) : List NodeId :=
  visibleKidsFuel s w filt (s.size + 1) (kids s n)

/-- the visible nodes below the children `l`, in document order -/
def visibleBelowFuel (s : Store) (w filt : Nat) : Nat → List NodeId → List NodeId
  | 0, _ => []
  | f + 1, l => l.flatMap fun c =>
    match verdict s w filt c with
    | .accept => c :: visibleBelowFuel s w filt f (kids s c)
    | .skip => visibleBelowFuel s w filt f (kids s c)
    | .reject => []

/-- what a TreeWalker rooted at `root` enumerates with nextNode() from its root: the nodes of `docOrder root` that are
accepted and have no rejected ancestor below the root (= `filter docOrder` minus the rejected subtrees) -/
def visibleOrder (s : Store) (w filt : Nat) (root : NodeId) : List NodeId :=
  visibleBelowFuel s w filt (s.size + 1) (kids s root)

/-- the same, as a filter of the document order: `x` is visible iff it is accepted and no node strictly between the root
and `x` is rejected -/
def visibleP (s : Store) (w filt : Nat) (root x : NodeId) : Bool :=
  verdict s w filt x == .accept &&
  ((ancestors s x).takeWhile (· != root)).all (fun a => verdict s w filt a != .reject)

-- ------------------------------------------------------------------ Range (DOM Range 2.2, 2.5, 2.12)

/-- a boundary point: container and offset -/
abbrev BP := NodeId × Nat

/-- 2.12.1 insertion of a node: `node` has just become the child number `idx` of `p` -/
def bpInsertedNode (p : NodeId) (idx : Nat) (b : BP) : BP :=
  if b.1 = p ∧ idx < b.2 then (b.1, b.2 + 1) else b

/-- 2.12.2 deletion of a node: the child number `idx` of `p`, root of the subtree `sub`, is about to be removed -/
def bpDeletedNode (p : NodeId) (idx : Nat) (sub : NodeId → Bool) (b : BP) : BP :=
  if sub b.1 then (p, idx)
  else if b.1 = p ∧ idx < b.2 then (b.1, b.2 - 1) else b

/-- 2.12.1 insertion of `cnt` characters at `off` into the character data `t` -/
def bpInsertedText (t : NodeId) (off cnt : Nat) (b : BP) : BP :=
  if b.1 = t ∧ off < b.2 then (b.1, b.2 + cnt) else b

/-- 2.12.2 deletion of the characters [off, off+cnt) of `t` -/
def bpDeletedText (t : NodeId) (off cnt : Nat) (b : BP) : BP :=
  if b.1 = t then
    (if off + cnt < b.2 then (b.1, b.2 - cnt) else if off < b.2 then (b.1, off) else b)
  else b

/-- the whole content of `t` is replaced (setData / setNodeValue): points inside go to its start -/
def bpReplacedText (t : NodeId) (b : BP) : BP := if b.1 = t then (t, 0) else b

/-- splitText(off): the characters from `off` on move to the new node `nw` -/
def bpSplit (t nw : NodeId) (off : Nat) (b : BP) : BP :=
  if b.1 = t ∧ off < b.2 then (nw, b.2 - off) else b

/-- comparison of two points of one tree, DOM Range 2.5: -1 before, 0 equal, 1 after.  Case 4 (neither container is an
inclusive ancestor of the other) is decided by the document order of the containers. -/
def bpCompare (s : Store) (root : NodeId) (a b : BP) : Int :=
  if a.1 = b.1 then (if a.2 < b.2 then -1 else if a.2 = b.2 then 0 else 1) else
  match (kids s a.1).find? (fun c => isAncOf s c b.1) with
  | some c => if a.2 ≤ indexIn s a.1 c then -1 else 1
  | none =>
    match (kids s b.1).find? (fun c => isAncOf s c a.1) with
    | some c => if indexIn s b.1 c < b.2 then -1 else 1
    | none => if (docOrder s root).idxOf a.1 < (docOrder s root).idxOf b.1 then -1 else 1

/-- DOM Range 2.2: both boundary points are in the same tree (containers live), offsets within the containers, start not
after end -/
structure ValidRange (s : Store) (r : Range) : Prop where
  startLive : (s.get r.sc).isSome
  endLive : (s.get r.ec).isSome
  sameTree : rootOf s r.sc = rootOf s r.ec
  startOff : r.so ≤ lenOf s r.sc
  endOff : r.eo ≤ lenOf s r.ec
  ordered : bpKey s (r.sc, r.so) ≤ bpKey s (r.ec, r.eo)

instance (s : Store) (r : Range) : Decidable (ValidRange s r) :=
  if h : (s.get r.sc).isSome ∧ (s.get r.ec).isSome ∧ rootOf s r.sc = rootOf s r.ec ∧ r.so ≤ lenOf s r.sc ∧
      r.eo ≤ lenOf s r.ec ∧ bpKey s (r.sc, r.so) ≤ bpKey s (r.ec, r.eo)
  then isTrue ⟨h.1, h.2.1, h.2.2.1, h.2.2.2.1, h.2.2.2.2.1, h.2.2.2.2.2⟩
  else isFalse fun v => h ⟨v.startLive, v.endLive, v.sameTree, v.startOff, v.endOff, v.ordered⟩

/-- the character data (Text, CDATASection) inside node `n` between the optional boundary points `lo` and `hi` that lie
in `n`'s subtree (`none` = unbounded on that side), in document order -/
def selTextFuel (s : Store) : Nat → NodeId → Option BP → Option BP → List Nat
  | 0, _, _, _ => []
  | f + 1, n, lo, hi =>
    if textLike s n then
      if isCharText s n then
        let d := dataOf s n
        let a := match lo with
          | some (_, o) => o
          | none => 0
        let b := match hi with
          | some (_, o) => o
          | none => d.length
        (d.take b).drop a
      else []
    else
      let (i0, lo0) := lowerCut s n lo
      let (i1, hi1) := upperCut s n hi
      let part := ((kids s n).take i1).drop i0
      let last := i1 - i0 - 1
      (part.zipIdx.map fun (k, j) =>
        selTextFuel s f k (if j = 0 then lo0 else none) (if j = last then hi1 else none)).flatten

/-- toString() of a range (DOM Range 2.11): "the data characters, not any markup" between the boundary points -/
def rangeText (s : Store) (r : Range) : List Nat :=
  if r.sc = r.ec ∧ textLike s r.sc then
    (if isCharText s r.sc then ((dataOf s r.sc).take r.eo).drop r.so else [])
  else selTextFuel s (s.size + 1) (commonAnc s r.sc r.ec) (some (r.sc, r.so)) (some (r.ec, r.eo))

/-- text content of a subtree: the character data of its Text / CDATASection nodes in document order -/
def textOf (s : Store) (n : NodeId) : List Nat :=
  ((docOrder s n).filter (isCharText s)).flatMap (dataOf s)

end XV.Spec.Views
