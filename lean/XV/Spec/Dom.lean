/-
C13 — declarative side: what DOM Core requires of every state of a document set (`WF`), the ancestor relation,
and the hierarchy table of DOM Core §1.1.1 ("The Structure Model") transcribed by hand (the model uses the table
extracted from DOMDocumentImpl::isKidOK; `kidok_table_spec` in Props ties the two).
-/
import XV.Model.Dom
namespace XV.Spec.Dom
open XV.Model.Dom

/-- DOM Core §1.1.1: which node types may be children of which. -/
def allowedChild : Kind → Kind → Bool
  | .document, c => c == .element || c == .pi || c == .comment || c == .doctype
  | .fragment, c | .entityRef, c | .element, c | .entity, c =>
      c == .element || c == .pi || c == .comment || c == .text || c == .cdata || c == .entityRef
  | .attr, c => c == .text || c == .entityRef
  | _, _ => false

/-- `AncOrSelf s a x`: `a` is `x` or one of its ancestors (reflexive-transitive closure of getParentNode). -/
inductive AncOrSelf (s : Store) (a : NodeId) : NodeId → Prop
  | refl : AncOrSelf s a a
  | step {x q : NodeId} : parentOf s x = some q → AncOrSelf s a q → AncOrSelf s a x

/-- Well-formedness of a store: the documents form a forest of trees with consistent links. -/
structure WF (s : Store) : Prop where
  /-- every listed child exists and points back to the node that lists it (so: at most one parent) -/
  childParent : ∀ p r c, s.get p = some r → c ∈ r.children → ∃ rc, s.get c = some rc ∧ rc.parent = some p
  /-- every node with a parent is listed by that parent -/
  parentChild : ∀ c rc p, s.get c = some rc → rc.parent = some p → ∃ r, s.get p = some r ∧ c ∈ r.children
  /-- … exactly once -/
  nodupChildren : ∀ p r, s.get p = some r → r.children.Nodup
  /-- no node is its own ancestor: parents have strictly larger rank -/
  acyclic : ∃ rank : NodeId → Nat, ∀ c rc p, s.get c = some rc → rc.parent = some p → rank c < rank p
  /-- the owner document of every node is a live Document that owns itself -/
  ownerDoc : ∀ i r, s.get i = some r → ∃ rd, s.get r.owner = some rd ∧ rd.kind = .document ∧ rd.owner = r.owner
  docSelf : ∀ i r, s.get i = some r → r.kind = .document → r.owner = i
  /-- ownerDocument is uniform along parent links -/
  ownerUniform : ∀ c rc p rp, s.get c = some rc → rc.parent = some p → s.get p = some rp → rc.owner = rp.owner
  /-- Documents and Attrs are never children -/
  rootKinds : ∀ i r, s.get i = some r → r.kind = .document ∨ r.kind = .attr → r.parent = none
  /-- attribute maps: entries are live Attrs of the same document that point back to the element … -/
  attrLink : ∀ e re a, s.get e = some re → a ∈ re.attrs →
    ∃ ra, s.get a = some ra ∧ ra.kind = .attr ∧ ra.ownerElem = some e ∧ ra.owner = re.owner
  /-- … an owned Attr is in its owner's map … -/
  attrBack : ∀ a ra e, s.get a = some ra → ra.ownerElem = some e → ∃ re, s.get e = some re ∧ a ∈ re.attrs
  /-- … and the map is strictly sorted by attribute name (hence duplicate-free) -/
  attrSorted : ∀ e re, s.get e = some re → (re.attrs.map (nameOf s)).Pairwise (fun x y => nameLt x y = true)
  /-- only Elements hold attributes -/
  attrsElem : ∀ e re, s.get e = some re → re.attrs ≠ [] → re.kind = .element

/-- a single node `rc` may become a child of `rp`: the DOM Core table, plus the Xerces-C extension that a Document
accepts an all-white-space Text (DOMDocumentImpl::isKidOK) -/
def childOK (rp rc : NodeRec) : Prop :=
  allowedChild rp.kind rc.kind = true ∨ (rp.kind = .document ∧ rc.kind = .text ∧ isAllSpaces rc.data = true)

/-- DOM Core: when `p.insertBefore(n, ref)` (all operands live) is permitted. -/
structure LegalInsert (s : Store) (p n : NodeId) (rp rn : NodeRec) (ref : Option NodeId) : Prop where
  /-- the target's node type has children at all (otherwise HIERARCHY_REQUEST_ERR) -/
  notLeaf : isLeaf rp.kind = false
  /-- the target is not read-only (NO_MODIFICATION_ALLOWED_ERR) -/
  writable : rp.readOnly = false
  /-- `n` was created by the document that owns `p` (WRONG_DOCUMENT_ERR) -/
  sameDoc : ownerDocOf rn = some rp.owner
  /-- `n` is neither `p` nor one of its ancestors (HIERARCHY_REQUEST_ERR) -/
  noCycle : ¬ AncOrSelf s n p
  /-- `ref`, if given, is a child of `p` (NOT_FOUND_ERR) -/
  refIsChild : ∀ r, ref = some r → parentOf s r = some p
  /-- inserting a node before itself is a no-op; otherwise the type of `n` (of each child, for a
  DocumentFragment) is allowed under `p` (HIERARCHY_REQUEST_ERR) -/
  types : ref = some n ∨
    (if rn.kind = .fragment then ∀ k, k ∈ rn.children → ∃ rk, s.get k = some rk ∧ childOK rp rk else childOK rp rn)
  /-- a Document gets no second Element / DocumentType child (HIERARCHY_REQUEST_ERR) -/
  docOnce : ¬ (rp.kind = .document ∧ docConflict s rp rn false false = true)

end XV.Spec.Dom
