/-
Spec for the reader (C04/C01): what a reader over a byte string must deliver, independently of how
the bytes arrive and of any buffer.

* `decodeAll enc bytes` — the characters (UTF-16 code units) of the whole byte string, decoded
  sequence by sequence from the start with unbounded room, and how decoding ends: `.eof`, or the
  exception raised by the first undecodable sequence.  For UTF-8 one sequence is decoded by
  `XV.Model.Utf8.decodeStep`, which C05 proves equal to Unicode Table 3-7
  (`utf8_step_complete/sound`); `wellformed_utf8_delivered` in XV.Props.C04 restates the result
  purely in terms of XV.Spec.Utf8.
  A truncated final sequence (UTF-8) / a trailing odd byte (UTF-16) is the exception Trans_BadSrcSeq:
  xcodeMoreChars raises it when the transcoder needs more bytes and the stream has none (DESIGN §5 F1,
  repaired in the code under test).
* `normEOL nel` — XML 1.0 §2.11 / XML 1.1 §2.11 end-of-line normalisation.
* `posStep` — line/column bookkeeping as a function of the delivered characters.
-/
import XV.Model.Reader
namespace XV.Spec.Reader
open XV.Gen.ReaderConsts
open XV.Model.Utf8 (Exc Step decodeStep)
open XV.Model.Reader (Enc End units16)

/-- UTF-8: all characters of `src`, one sequence at a time. `fuel ≥ src.length` suffices. -/
def all8 : Nat → List Nat → List Nat × End
  | 0, _ => ([], .eof)
  | _ + 1, [] => ([], .eof)
  | fuel + 1, b0 :: rest =>
    if b0 ≤ 127 then let (cs, e) := all8 fuel rest; (b0 :: cs, e)
    else match decodeStep (b0 :: rest) with
      | .more => ([], .exc .badSrcSeq)
      | .exc e => ([], .exc e)
      | .val v n =>
        if v < 65536 then let (cs, e) := all8 fuel ((b0 :: rest).drop n); (v :: cs, e)
        else if v > 0x10FFFF then ([], .exc .badSrcSeq)
        else
          let w := v - 0x10000
          let (cs, e) := all8 fuel ((b0 :: rest).drop n)
          ((w / 1024 + 0xD800) :: (w % 1024 + 0xDC00) :: cs, e)

/-- US-ASCII: characters up to the first byte ≥ 0x80, which is an error. -/
def allAscii : List Nat → List Nat × End
  | [] => ([], .eof)
  | b :: rest => if b < 0x80 then let (cs, e) := allAscii rest; (b :: cs, e) else ([], .exc .unrepresentable)

def decodeAll : Enc → List Nat → List Nat × End
  | .utf8, src => all8 src.length src
  | .latin1, src => (src, .eof)
  | .ascii, src => allAscii src
  | .utf16le, src => (units16 true src, if src.length % 2 = 1 then .exc .badSrcSeq else .eof)
  | .utf16be, src => (units16 false src, if src.length % 2 = 1 then .exc .badSrcSeq else .eof)

def normOne (nel : Bool) (c : Nat) : Nat :=
  if c = chCR then chLF else if (c = chNEL ∨ c = chLineSeparator) ∧ nel = true then chLF else c

/-- End-of-line normalisation of an external entity: CR LF, CR NEL (1.1), CR, NEL (1.1), LS (1.1) ↦ LF. -/
def normEOL (nel : Bool) : List Nat → List Nat
  | [] => []
  | [c] => [normOne nel c]
  | c :: d :: rest =>
    if c = chCR ∧ (d = chLF ∨ (d = chNEL ∧ nel = true)) then chLF :: normEOL nel rest
    else normOne nel c :: normEOL nel (d :: rest)

/-- What getNextChar hands out for the raw characters `cs` (internal entities are not normalised). -/
def deliver (nel external : Bool) (cs : List Nat) : List Nat := if external then normEOL nel cs else cs

/-- line/column after handing out character `c` (as delivered). -/
def posStep (p : Nat × Nat) (c : Nat) : Nat × Nat :=
  if c = chLF ∨ c = chCR then (p.1 + 1, 1)
  else if c = chNEL ∨ c = chLineSeparator then p
  else (p.1, p.2 + 1)

def posAfter (p : Nat × Nat) (cs : List Nat) : Nat × Nat := cs.foldl posStep p

end XV.Spec.Reader
