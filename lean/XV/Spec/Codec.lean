/-
Spec: XML Schema Part 2 §3.2.15 hexBinary, §3.2.16 base64Binary (with erratum E2-54), RFC 2045 §6.8 Table 1.
XMLCh units and octets are `Nat`s.  Nothing here looks at the xerces tables.

  hexBinary     ::= ([0-9a-fA-F]{2})*            canonical: upper case
  Base64Binary  ::= ((B64S B64S B64S B64S)* ((B64S B64S B64S B64) | (B64S B64S B16S '=') | (B64S B04S '=' #x20? '=')))?
  B64S ::= B64 #x20?    B16S ::= B16 #x20?    B04S ::= B04 #x20?
  B04 ::= [AQgw]   B16 ::= [AEIMQUYcgkosw048]   B64 ::= [A-Za-z0-9+/]
  canonical base64Binary ::= the same without any #x20
-/
namespace XV.Spec.Codec

def isByte (b : Nat) : Prop := b < 256
def AllBytes (l : List Nat) : Prop := ∀ b ∈ l, b < 256

/-! ### hexBinary -/

def hexDigitVal (c : Nat) : Option Nat :=
  if 0x30 ≤ c ∧ c ≤ 0x39 then some (c - 0x30)
  else if 0x41 ≤ c ∧ c ≤ 0x46 then some (c - 0x41 + 10)
  else if 0x61 ≤ c ∧ c ≤ 0x66 then some (c - 0x61 + 10)
  else none

def isHexLex (s : List Nat) : Bool := s.length % 2 == 0 && s.all (fun c => (hexDigitVal c).isSome)

/-- upper-case hex digit of a nibble -/
def hexChar (v : Nat) : Nat := if v < 10 then 0x30 + v else 0x41 + (v - 10)

/-- canonical lexical form of an octet string -/
def hexEncode : List Nat → List Nat
  | [] => []
  | b :: r => hexChar (b / 16) :: hexChar (b % 16) :: hexEncode r

/-- value of a hexBinary lexical form -/
def hexValue : List Nat → Option (List Nat)
  | [] => some []
  | [_] => none
  | c1 :: c2 :: r =>
    match hexDigitVal c1, hexDigitVal c2, hexValue r with
    | some a, some b, some v => some ((a * 16 + b) :: v)
    | _, _, _ => none

/-! ### base64Binary -/

/-- RFC 2045 Table 1: value → character -/
def b64Char (v : Nat) : Nat :=
  if v < 26 then 0x41 + v
  else if v < 52 then 0x61 + (v - 26)
  else if v < 62 then 0x30 + (v - 52)
  else if v = 62 then 0x2B
  else 0x2F

/-- RFC 2045 Table 1: character → value -/
def b64Val (c : Nat) : Option Nat :=
  if 0x41 ≤ c ∧ c ≤ 0x5A then some (c - 0x41)
  else if 0x61 ≤ c ∧ c ≤ 0x7A then some (c - 0x61 + 26)
  else if 0x30 ≤ c ∧ c ≤ 0x39 then some (c - 0x30 + 52)
  else if c = 0x2B then some 62
  else if c = 0x2F then some 63
  else none

def isB64 (c : Nat) : Bool := (b64Val c).isSome
/-- B04 ::= [AQgw] -/
def isB04 (c : Nat) : Bool := c == 0x41 || c == 0x51 || c == 0x67 || c == 0x77
/-- B16 ::= [AEIMQUYcgkosw048] -/
def isB16 (c : Nat) : Bool :=
  c == 0x41 || c == 0x45 || c == 0x49 || c == 0x4D || c == 0x51 || c == 0x55 || c == 0x59 || c == 0x63 ||
  c == 0x67 || c == 0x6B || c == 0x6F || c == 0x73 || c == 0x77 || c == 0x30 || c == 0x34 || c == 0x38

def pad : Nat := 0x3D
def sp : Nat := 0x20

/-- the quartets of a space-free lexical form: `(B64 B64 B64 B64)* (B64x4 | B64 B64 B16 '=' | B64 B04 '=' '=')` -/
def isB64Quartets : List Nat → Bool
  | [c1, c2, c3, c4] =>
    isB64 c1 && ((isB64 c2 && isB64 c3 && isB64 c4) || (isB64 c2 && isB16 c3 && c4 == pad)
                 || (isB04 c2 && c3 == pad && c4 == pad))
  | c1 :: c2 :: c3 :: c4 :: r => isB64 c1 && isB64 c2 && isB64 c3 && isB64 c4 && isB64Quartets r
  | _ => false

/-- single #x20 only, and only between two characters -/
def spacingOk : List Nat → Bool
  | [] => true
  | c :: r => c != sp && (go r)
where go : List Nat → Bool
  | [] => true
  | [c] => c != sp
  | c :: d :: r => if c == sp then d != sp && go (d :: r) else go (d :: r)

def unspace (s : List Nat) : List Nat := s.filter (· != sp)

/-- E2-54 lexical space (the empty string is a lexical form: the `?`) -/
def isBase64Lex (s : List Nat) : Bool := s.isEmpty || (spacingOk s && isB64Quartets (unspace s))

/-- RFC 2045 encoding without line breaks = canonical lexical form (E2-54) -/
def b64Encode : List Nat → List Nat
  | [] => []
  | [a] => [b64Char (a / 4), b64Char (a % 4 * 16), pad, pad]
  | [a, b] => [b64Char (a / 4), b64Char (a % 4 * 16 + b / 16), b64Char (b % 16 * 4), pad]
  | a :: b :: c :: r =>
    b64Char (a / 4) :: b64Char (a % 4 * 16 + b / 16) :: b64Char (b % 16 * 4 + c / 64) :: b64Char (c % 64) :: b64Encode r

end XV.Spec.Codec
