/-
Character classes of XML 1.0 and XML 1.1 as unions of code-point ranges, transcribed from the
Recommendations.  No Mathlib, executable.

Edition note.  The name classes implemented by xerces-c's `fgCharCharsTable1_0` are those of XML 1.0
*Fifth* Edition (productions [4] NameStartChar, [4a] NameChar), which are the same as XML 1.1's [4]/[4a];
the Fourth-Edition classes [84]-[89] (Letter, BaseChar, Ideographic, CombiningChar, Digit, Extender) are
NOT what the table holds (e.g. U+0132 and U+2160 are NameStartChars in the table and in [4], but not
Letters in [84]).  This file therefore transcribes [2] [3] [4] [4a] of XML 1.0 5th ed. and [2] [2a] [3] [4] [4a] of
XML 1.1 2nd ed.
-/
namespace XV.Spec.XmlChar

/-- a union of closed code-point ranges `[lo-hi]`, as the productions are written -/
abbrev Ranges := List (Nat × Nat)

/-- `lo ≤ c ≤ hi`  (`Nat.ble` is the Boolean `≤`) -/
@[inline] def inR (c lo hi : Nat) : Bool := Nat.ble lo c && Nat.ble c hi

def inRanges (R : Ranges) (c : Nat) : Bool := R.any fun r => inR c r.1 r.2

/-- set expressions over ranges: what the productions and the "minus" clauses of the prose denote -/
inductive CSet
  | rs (R : Ranges)
  | union (a b : CSet)
  | diff (a b : CSet)

def CSet.mem : CSet → Nat → Bool
  | .rs R, c => inRanges R c
  | .union a b, c => a.mem c || b.mem c
  | .diff a b, c => a.mem c && !b.mem c

/-- XML 1.0 [2]  Char ::= #x9 | #xA | #xD | [#x20-#xD7FF] | [#xE000-#xFFFD] | [#x10000-#x10FFFF] -/
def char10 : Ranges := [(0x9, 0x9), (0xA, 0xA), (0xD, 0xD), (0x20, 0xD7FF), (0xE000, 0xFFFD), (0x10000, 0x10FFFF)]

/-- XML 1.1 [2]  Char ::= [#x1-#xD7FF] | [#xE000-#xFFFD] | [#x10000-#x10FFFF] -/
def char11 : Ranges := [(0x1, 0xD7FF), (0xE000, 0xFFFD), (0x10000, 0x10FFFF)]

/-- XML 1.1 [2a] RestrictedChar ::= [#x1-#x8] | [#xB-#xC] | [#xE-#x1F] | [#x7F-#x84] | [#x86-#x9F] -/
def restricted11 : Ranges := [(0x1, 0x8), (0xB, 0xC), (0xE, 0x1F), (0x7F, 0x84), (0x86, 0x9F)]

/-- [3]  S ::= (#x20 | #x9 | #xD | #xA)+   (one character of it; same in 1.0 and 1.1) -/
def sChars : Ranges := [(0x20, 0x20), (0x9, 0x9), (0xD, 0xD), (0xA, 0xA)]

/-- [4]  NameStartChar ::= ":" | [A-Z] | "_" | [a-z] | [#xC0-#xD6] | [#xD8-#xF6] | [#xF8-#x2FF] | [#x370-#x37D]
      | [#x37F-#x1FFF] | [#x200C-#x200D] | [#x2070-#x218F] | [#x2C00-#x2FEF] | [#x3001-#xD7FF]
      | [#xF900-#xFDCF] | [#xFDF0-#xFFFD] | [#x10000-#xEFFFF]        (XML 1.0 5th ed. = XML 1.1) -/
def nameStart : Ranges :=
  [(0x3A, 0x3A), (0x41, 0x5A), (0x5F, 0x5F), (0x61, 0x7A), (0xC0, 0xD6), (0xD8, 0xF6), (0xF8, 0x2FF), (0x370, 0x37D),
   (0x37F, 0x1FFF), (0x200C, 0x200D), (0x2070, 0x218F), (0x2C00, 0x2FEF), (0x3001, 0xD7FF),
   (0xF900, 0xFDCF), (0xFDF0, 0xFFFD), (0x10000, 0xEFFFF)]

/-- [4a] NameChar ::= NameStartChar | "-" | "." | [0-9] | #xB7 | [#x0300-#x036F] | [#x203F-#x2040] -/
def nameCharExtra : Ranges := [(0x2D, 0x2D), (0x2E, 0x2E), (0x30, 0x39), (0xB7, 0xB7), (0x300, 0x36F), (0x203F, 0x2040)]

def colon : Ranges := [(0x3A, 0x3A)]

/-- XML 1.1 §2.11: the two additional line-end characters that are translated to #xA on input. -/
def eol11 : Ranges := [(0x85, 0x85), (0x2028, 0x2028)]

def isChar10 (c : Nat) : Bool := inRanges char10 c
def isChar11 (c : Nat) : Bool := inRanges char11 c
def isRestricted11 (c : Nat) : Bool := inRanges restricted11 c
def isS (c : Nat) : Bool := inRanges sChars c
def isNameStart (c : Nat) : Bool := inRanges nameStart c
def isNameChar (c : Nat) : Bool := inRanges nameStart c || inRanges nameCharExtra c
/-- Namespaces in XML 1.0 [4]-[6]: NCName characters are the Name characters minus ':' -/
def isNCNameChar (c : Nat) : Bool := isNameChar c && !inRanges colon c
def isNCNameStart (c : Nat) : Bool := isNameStart c && !inRanges colon c
def isEol11 (c : Nat) : Bool := inRanges eol11 c

/-- XML version of a document entity -/
inductive Version | v10 | v11
  deriving DecidableEq, Repr, Inhabited

/-- A character that may appear literally in a document of the given version:
    1.0: Char;   1.1: Char minus RestrictedChar (§2.2: restricted characters only through references). -/
def literalSet : Version → CSet
  | .v10 => .rs char10
  | .v11 => .diff (.rs char11) (.rs restricted11)
def isLiteralChar (v : Version) (c : Nat) : Bool := (literalSet v).mem c

/-- A character that a character reference may denote (WFC Legal Character): production Char of the version. -/
def isRefChar : Version → Nat → Bool
  | .v10, c => isChar10 c
  | .v11, c => isChar11 c

/-! ### The eight flag classes of xerces-c's character tables, stated from the productions -/

inductive CharClass
  | ncName | firstName | name | plainContent | specialStartTag | control | xmlChar | whitespace
  deriving DecidableEq, Repr

def CharClass.all : List CharClass :=
  [.ncName, .firstName, .name, .plainContent, .specialStartTag, .control, .xmlChar, .whitespace]

/-- white space as the scanner may meet it before line-end normalisation: S, plus (1.1) the §2.11 line ends -/
def rawSpaceSet : Version → CSet
  | .v10 => .rs sChars
  | .v11 => .union (.rs sChars) (.rs eol11)

def classSet (v : Version) : CharClass → CSet
  | .ncName => .diff (.union (.rs nameStart) (.rs nameCharExtra)) (.rs colon)
  | .firstName => .rs nameStart
  | .name => .union (.rs nameStart) (.rs nameCharExtra)
  | .xmlChar => literalSet v
  | .whitespace => rawSpaceSet v
  /- C0/C1 control range that XML 1.1 admits through [2] only (the 1.1 char-ref check is `xmlChar ∨ control`);
     XML 1.0 has no such class -/
  | .control => match v with
      | .v10 => .rs []
      | .v11 => .rs [(0x1, 0x1F), (0x7F, 0x9F)]
  /- characters that end the fast loops of the start-tag scanner: NUL / > < ' " and white space -/
  | .specialStartTag => .union (.rs [(0x0, 0x0), (0x2F, 0x2F), (0x3E, 0x3E), (0x3C, 0x3C), (0x27, 0x27), (0x22, 0x22)]) (rawSpaceSet v)
  /- literal characters needing no special handling in character data: not CR LF '<' '&' ']' (1.1: nor NEL, LS) -/
  | .plainContent => .diff (literalSet v)
      (.union (.rs [(0xD, 0xD), (0xA, 0xA), (0x3C, 0x3C), (0x26, 0x26), (0x5D, 0x5D)])
              (match v with | .v10 => .rs [] | .v11 => .rs eol11))

def specClass (v : Version) (k : CharClass) (c : Nat) : Bool := (classSet v k).mem c

/-- the two facts that tie the 1.1 flag classes back to productions [2] and [2a] -/
def refChar11ViaFlags (c : Nat) : Bool := specClass .v11 .xmlChar c || specClass .v11 .control c

end XV.Spec.XmlChar
