/-
C18 — what a sub-allocating arena owes its callers, independent of how it carves: every region handed
out lies in the payload of a raw block the arena owns, and no two regions share a byte.  No Mathlib.
Executable (`regionsOk`) so that the driver can judge what the real `DOMDocumentImpl` returned.
-/
namespace XV.Spec.Arena

/-- raw block `(start, size)`; the first `hdr` bytes are the arena's link field -/
abbrev Block := Nat × Nat
/-- handed-out region `(pointer, size)` -/
abbrev Region := Nat × Nat

def Inside (hdr : Nat) (b : Block) (r : Region) : Prop := b.1 + hdr ≤ r.1 ∧ r.1 + r.2 ≤ b.1 + b.2

/-- no common byte (an empty region overlaps nothing) -/
def RDisj (x y : Region) : Prop := x.2 = 0 ∨ y.2 = 0 ∨ x.1 + x.2 ≤ y.1 ∨ y.1 + y.2 ≤ x.1

def BDisj (x y : Block) : Prop := x.1 + x.2 ≤ y.1 ∨ y.1 + y.2 ≤ x.1

instance (hdr b r) : Decidable (Inside hdr b r) := by unfold Inside; infer_instance
instance (x y) : Decidable (RDisj x y) := by unfold RDisj; infer_instance
instance (x y) : Decidable (BDisj x y) := by unfold BDisj; infer_instance

/-- The arena property for one snapshot. -/
def ArenaOk (hdr : Nat) (blocks : List Block) (regions : List Region) : Prop :=
  (∀ r ∈ regions, r.2 > 0 → ∃ b ∈ blocks, Inside hdr b r) ∧ regions.Pairwise RDisj

def pairwiseB {α} (p : α → α → Bool) : List α → Bool
  | [] => true
  | x :: xs => xs.all (p x) && pairwiseB p xs

/-- executable form of `ArenaOk` -/
def regionsOk (hdr : Nat) (blocks : List Block) (regions : List Region) : Bool :=
  regions.all (fun r => r.2 == 0 || blocks.any (fun b => decide (Inside hdr b r))) &&
  pairwiseB (fun x y => decide (RDisj x y)) regions

end XV.Spec.Arena
