/-
Spec: regular expressions over code points (XML Schema Part 2, Appendix F, after desugaring of
quantifiers) with the language semantics `Matches`, and an executable Brzozowski-derivative matcher.
-/
namespace XV.Spec.Regex

abbrev Ranges := List (Int × Int)

/-- membership of a code point in a set of ranges -/
def memB (c : Int) (rs : Ranges) : Bool := rs.any (fun p => decide (p.1 ≤ c) && decide (c ≤ p.2))

inductive Re
  | empty                               -- matches nothing
  | eps                                 -- matches the empty string
  | cls (rs : Ranges) (neg : Bool)      -- one code point in (neg = false) / not in (neg = true) the set
  | cat (a b : Re)
  | alt (a b : Re)
  | star (a : Re)
  deriving Repr, DecidableEq, Inhabited

def inCls (c : Int) (rs : Ranges) (neg : Bool) : Bool := if neg then !(memB c rs) else memB c rs

inductive Matches : Re → List Int → Prop
  | eps : Matches .eps []
  | cls {rs neg c} : inCls c rs neg = true → Matches (.cls rs neg) [c]
  | cat {a b s t} : Matches a s → Matches b t → Matches (.cat a b) (s ++ t)
  | altL {a b s} : Matches a s → Matches (.alt a b) s
  | altR {a b s} : Matches b s → Matches (.alt a b) s
  | starNil {a} : Matches (.star a) []
  | starCons {a s t} : Matches a s → Matches (.star a) t → Matches (.star a) (s ++ t)

def nullable : Re → Bool
  | .empty => false
  | .eps => true
  | .cls _ _ => false
  | .cat a b => nullable a && nullable b
  | .alt a b => nullable a || nullable b
  | .star _ => true

def deriv (c : Int) : Re → Re
  | .empty => .empty
  | .eps => .empty
  | .cls rs neg => if inCls c rs neg then .eps else .empty
  | .cat a b => if nullable a then .alt (.cat (deriv c a) b) (deriv c b) else .cat (deriv c a) b
  | .alt a b => .alt (deriv c a) (deriv c b)
  | .star a => .cat (deriv c a) (.star a)

/-- alternatives of a (nested) alternation, as a list -/
def altList : Re → List Re
  | .alt a b => altList a ++ altList b
  | .empty => []
  | r => [r]

def mkAlt : List Re → Re
  | [] => .empty
  | [r] => r
  | r :: t => .alt r (mkAlt t)

def dedup : List Re → List Re
  | [] => []
  | x :: t => if x ∈ t then dedup t else x :: dedup t

/-- simplification so that derivatives stay small when executed (semantics-preserving):
unit/zero laws and associativity-commutativity-idempotence of alternation -/
def simp : Re → Re
  | .cat a b =>
    match simp a, simp b with
    | .empty, _ => .empty
    | _, .empty => .empty
    | .eps, b' => b'
    | a', .eps => a'
    | a', b' => .cat a' b'
  | .alt a b => mkAlt (dedup (altList (simp a) ++ altList (simp b)))
  | .star a =>
    match simp a with
    | .empty => .eps
    | .eps => .eps
    | a' => .star a'
  | r => r

def derivMatch (r : Re) : List Int → Bool
  | [] => nullable r
  | c :: s => derivMatch (deriv c r) s

/-- executable matcher used by the driver: derivatives with simplification -/
def fastMatch (r : Re) : List Int → Bool
  | [] => nullable r
  | c :: s => fastMatch (simp (deriv c r)) s

/-! quantifier desugaring (XSD `{n,m}`, `{n,}`, `?`, `+`) -/
def pow (r : Re) : Nat → Re
  | 0 => .eps
  | n + 1 => .cat r (pow r n)

def opt (r : Re) : Re := .alt r .eps

/-- between 0 and k copies -/
def upto (r : Re) : Nat → Re
  | 0 => .eps
  | k + 1 => opt (.cat r (upto r k))

/-- `r{n,m}` (m = none: unbounded) -/
def rep (r : Re) (n : Nat) (m : Option Nat) : Re :=
  match m with
  | none => .cat (pow r n) (.star r)
  | some m => .cat (pow r n) (upto r (m - n))

end XV.Spec.Regex
