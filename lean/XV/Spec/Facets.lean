/-
Spec: XML Schema Part 2 §4.3 constraining facets and §4.1.2 derivation by restriction, list (§2.5.1.2), union (§2.5.1.3).

A restriction step declares some facets; a value is in the derived type iff it is in the base type and satisfies every
facet the step declares.  Hence along a chain of restriction steps the accepted values are the CONJUNCTION of all
steps (`chainOk`).  A step is a *valid restriction* (§4.3.7–4.3.10 "valid restriction" constraints, §4.3.1–4.3.3,
§4.3.11–4.3.12) only if it tightens: its bounds lie within the bounds in force.

The value space is abstract: a type `V` with a three-way comparison `cmp : V → V → Int` (-1 less, 0 equal, 1 greater,
2 indeterminate), a digit-count function and a length function.  `XV.Spec.Decimal.cmpSpec` instantiates it for decimal.
-/
namespace XV.Spec.Facets

/-- what one `<xs:restriction>` step declares (absent facet = `none`) -/
structure Step (V : Type) where
  maxIncl : Option V := none
  maxExcl : Option V := none
  minIncl : Option V := none
  minExcl : Option V := none
  totalDigits : Option Nat := none
  fractionDigits : Option Nat := none
  length : Option Nat := none
  minLength : Option Nat := none
  maxLength : Option Nat := none
  enumeration : Option (List V) := none

variable {V : Type} (cmp : V → V → Int) (dg : V → Nat × Nat) (len : V → Nat)

/-- the value satisfies every facet the step declares -/
def stepOk (s : Step V) (v : V) : Prop :=
  (∀ m, s.maxIncl = some m → cmp v m = -1 ∨ cmp v m = 0) ∧       -- v ≤ maxInclusive
  (∀ m, s.maxExcl = some m → cmp v m = -1) ∧                     -- v < maxExclusive
  (∀ m, s.minIncl = some m → cmp v m = 1 ∨ cmp v m = 0) ∧        -- v ≥ minInclusive
  (∀ m, s.minExcl = some m → cmp v m = 1) ∧                      -- v > minExclusive
  (∀ n, s.totalDigits = some n → (dg v).1 ≤ n) ∧
  (∀ n, s.fractionDigits = some n → (dg v).2 ≤ n) ∧
  (∀ n, s.length = some n → len v = n) ∧
  (∀ n, s.minLength = some n → n ≤ len v) ∧
  (∀ n, s.maxLength = some n → len v ≤ n) ∧
  (∀ es, s.enumeration = some es → ∃ e ∈ es, cmp v e = 0)

/-- §4.1.2: the value space of a type derived by a chain of restrictions -/
def chainOk (steps : List (Step V)) (v : V) : Prop := ∀ s ∈ steps, stepOk cmp dg len s v

/-- list (§2.5.1.2): white-space separated items, each valid for the item type; length facets count items -/
def listOk (itemOk : List Nat → Prop) (lengthOk : Nat → Prop) (items : List (List Nat)) : Prop :=
  (∀ it ∈ items, itemOk it) ∧ lengthOk items.length

/-- union (§2.5.1.3): valid iff some member type accepts; the validating member is the first one that does -/
def unionOk (members : List (List Nat → Bool)) (s : List Nat) : Prop := ∃ m ∈ members, m s = true

def unionMember (members : List (List Nat → Bool)) (s : List Nat) : Option Nat :=
  members.findIdx? (fun m => m s)

end XV.Spec.Facets
