/-
  Spec for C06 (namespace processing) -- declarative and executable, core Lean only.

  Sources transcribed: "Namespaces in XML 1.0 (3rd ed.)" / "Namespaces in XML 1.1 (2nd ed.)" sections 3-6
  (scoping, defaulting, reserved prefixes `xml`/`xmlns`, un-declaration, uniqueness of attributes), the XML
  Infoset / DOM Level 2 rule that namespace declaration attributes live in the `xmlns` namespace, and the
  DOM Level 3 Core meaning of lookupNamespaceURI / lookupPrefix / isDefaultNamespace ("according to the
  declarations in scope").

  Prefixes and namespace names are strings; the empty prefix "" stands for "no prefix" (default namespace).
-/
namespace XV.Spec.Namespace

def xmlURI : String := "http://www.w3.org/XML/1998/namespace"
def xmlnsURI : String := "http://www.w3.org/2000/xmlns/"

/-- One namespace declaration attribute: `xmlns="u"` is `⟨"", u⟩`, `xmlns:p="u"` is `⟨"p", u⟩`. -/
structure Decl where
  pre : String
  uri : String
deriving DecidableEq, Repr, Inhabited

/-- the declarations carried by one element, in document order -/
abbrev Level := List Decl
/-- the chain of elements from the root (first) to the element under consideration (last) -/
abbrev Path := List Level

/-- the declaration for prefix `p` on one element (a well-formed tag has at most one) -/
def declOf : Level → String → Option String
  | [], _ => none
  | d :: ds, p => if d.pre = p then some d.uri else declOf ds p

/-- nearest enclosing declaration; the list is innermost level first -/
def nearest : List Level → String → Option String
  | [], _ => none
  | l :: outer, p => match declOf l p with
      | some u => some u
      | none => nearest outer p

/-- The namespace name prefix `p` (""= default namespace) is bound to at the end of `path`:
    `xml` and `xmlns` are pre-bound and cannot be rebound, otherwise the nearest enclosing declaration decides,
    and a declaration with the empty namespace name un-declares (`xmlns=""`, and `xmlns:p=""` in Namespaces 1.1).
    `globals` is an outermost pseudo-level (bindings supplied by the application, e.g. ElemStack::addGlobalPrefix). -/
def inScopeG (globals : Level) (path : Path) (p : String) : Option String :=
  if p = "xml" then some xmlURI
  else if p = "xmlns" then some xmlnsURI
  else match nearest (path.reverse ++ [globals]) p with
    | some u => if u = "" then none else some u
    | none => none

def inScope (path : Path) (p : String) : Option String := inScopeG [] path p

/-- namespace name of an element with prefix `p` ("" = unprefixed: the default namespace applies) -/
def elemNS (path : Path) (p : String) : Option String := inScope path p

/-- namespace name of an attribute with prefix `p`: the default namespace does NOT apply to attributes -/
def attrNS (path : Path) (p : String) : Option String := if p = "" then none else inScope path p

-- ------------------------------------------------------------------------------------------ documents

/-- one attribute specification inside a start tag, in document order -/
inductive Item where
  | decl (d : Decl)                     -- xmlns="…" / xmlns:p="…"
  | attr (pre : String) (loc : String)  -- any other attribute  [pre:]loc="…"
deriving DecidableEq, Repr, Inhabited

structure Tag where
  pre : String
  loc : String
  items : List Item
deriving Repr, Inhabited

inductive Node where
  | elem (t : Tag) (kids : List Node)
  | text | comment | pi | cdata
deriving Repr, Inhabited

def declsOf : List Item → Level
  | [] => []
  | .decl d :: r => d :: declsOf r
  | .attr _ _ :: r => declsOf r

def attrsOf : List Item → List (String × String)
  | [] => []
  | .decl _ :: r => attrsOf r
  | .attr p l :: r => (p, l) :: attrsOf r

def qname (pre loc : String) : String := if pre = "" then loc else pre ++ ":" ++ loc

-- ------------------------------------------------------------------------------------------ namespace well-formedness

inductive NsError where
  | unboundElemPrefix | unboundAttrPrefix
  | xmlPrefixWrongURI        -- xmlns:xml bound to something else than the xml namespace
  | xmlnsPrefixDeclared      -- xmlns:xmlns=…
  | xmlURIWrongPrefix        -- another prefix (or the default namespace) bound to the xml namespace name
  | xmlnsURIBound            -- anything bound to the xmlns namespace name
  | emptyPrefixedURI         -- xmlns:p="" in Namespaces 1.0
  | attrCollision            -- two attributes with the same expanded name
  | dupDeclaration           -- the same xmlns attribute twice (plain XML well-formedness)
deriving DecidableEq, Repr

def NsError.name : NsError → String
  | .unboundElemPrefix => "unboundElemPrefix" | .unboundAttrPrefix => "unboundAttrPrefix"
  | .xmlPrefixWrongURI => "xmlPrefixWrongURI" | .xmlnsPrefixDeclared => "xmlnsPrefixDeclared"
  | .xmlURIWrongPrefix => "xmlURIWrongPrefix" | .xmlnsURIBound => "xmlnsURIBound"
  | .emptyPrefixedURI => "emptyPrefixedURI" | .attrCollision => "attrCollision"
  | .dupDeclaration => "dupDeclaration"

/-- constraint violations of one declaration; `v11` = the document is XML 1.1 -/
def declErrors (v11 : Bool) (d : Decl) : List NsError :=
  (if d.pre = "xmlns" then [.xmlnsPrefixDeclared] else []) ++
  (if d.pre = "xml" ∧ d.uri ≠ xmlURI then [.xmlPrefixWrongURI] else []) ++
  (if d.pre ≠ "xml" ∧ d.uri = xmlURI then [.xmlURIWrongPrefix] else []) ++
  (if d.uri = xmlnsURI then [.xmlnsURIBound] else []) ++
  (if d.pre ≠ "" ∧ d.uri = "" ∧ ¬ v11 then [.emptyPrefixedURI] else [])

def hasDup {α} [DecidableEq α] : List α → Bool
  | [] => false
  | a :: r => r.contains a || hasDup r

/-- expanded names of the non-declaration attributes of a tag whose prefixes are bound -/
def expandedAttrs (path : Path) (as : List (String × String)) : List (Option String × String) :=
  as.map (fun (p, l) => (attrNS path p, l))

/-- all namespace errors of one start tag; `path` already includes this tag's own declarations -/
def tagErrors (v11 : Bool) (path : Path) (t : Tag) : List NsError :=
  let ds := declsOf t.items
  let as := attrsOf t.items
  (ds.map (declErrors v11)).flatten ++
  (if hasDup (ds.map (·.pre)) then [.dupDeclaration] else []) ++
  (if t.pre ≠ "" ∧ elemNS path t.pre = none then [.unboundElemPrefix] else []) ++
  (if as.any (fun (p, _) => p ≠ "" ∧ attrNS path p = none) then [.unboundAttrPrefix] else []) ++
  (if hasDup (expandedAttrs path as) then [.attrCollision] else [])

mutual
  def nodeErrors (v11 : Bool) (path : Path) : Node → List NsError
    | .elem t kids =>
        let path' := path ++ [declsOf t.items]
        tagErrors v11 path' t ++ nodesErrors v11 path' kids
    | _ => []
  def nodesErrors (v11 : Bool) (path : Path) : List Node → List NsError
    | [] => []
    | n :: ns => nodeErrors v11 path n ++ nodesErrors v11 path ns
end

/-- namespace-well-formed = no namespace constraint is violated anywhere -/
def nsWellFormed (v11 : Bool) (root : Node) : Bool := (nodeErrors v11 [] root).isEmpty

-- ------------------------------------------------------------------------------------------ expected reports

def optS : Option String → String
  | some s => s
  | none => ""

/-- a reported attribute: namespace name (none = no namespace), prefix, local name -/
structure AttrRep where
  ns : Option String
  pre : String
  loc : String
deriving DecidableEq, Repr, Inhabited

/-- SAX2 ContentHandler events (character data etc. left out) -/
inductive Ev where
  | startPrefixMapping (pre uri : String)
  | endPrefixMapping (pre : String)
  | startElement (ns : Option String) (pre loc : String) (attrs : List AttrRep)
  | endElement (ns : Option String) (pre loc : String)
deriving DecidableEq, Repr, Inhabited

/-- attributes of a SAX2 startElement: declaration attributes appear only with namespace-prefixes on.
    `xmlns:p` has prefix `xmlns` (bound to the xmlns namespace name), plain `xmlns` has no prefix, hence no namespace. -/
def sax2Attrs (nsPrefixes : Bool) (path : Path) : List Item → List AttrRep
  | [] => []
  | .decl d :: r =>
      (if nsPrefixes then
        [if d.pre = "" then ⟨attrNS path "", "", "xmlns"⟩ else ⟨attrNS path "xmlns", "xmlns", d.pre⟩] else [])
        ++ sax2Attrs nsPrefixes path r
  | .attr p l :: r => ⟨attrNS path p, p, l⟩ :: sax2Attrs nsPrefixes path r

mutual
  /-- the SAX2 event word of a node: prefix mappings open before startElement in declaration order and close
      after endElement in reverse order, each scope closed at the matching endElement -/
  def sax2Events (nsPrefixes : Bool) (path : Path) : Node → List Ev
    | .elem t kids =>
        let ds := declsOf t.items
        let path' := path ++ [ds]
        ds.map (fun d => .startPrefixMapping d.pre d.uri) ++
        [.startElement (elemNS path' t.pre) t.pre t.loc (sax2Attrs nsPrefixes path' t.items)] ++
        sax2EventsL nsPrefixes path' kids ++
        [.endElement (elemNS path' t.pre) t.pre t.loc] ++ ds.reverse.map (fun d => .endPrefixMapping d.pre)
    | _ => []
  def sax2EventsL (nsPrefixes : Bool) (path : Path) : List Node → List Ev
    | [] => []
    | n :: ns => sax2Events nsPrefixes path n ++ sax2EventsL nsPrefixes path ns
end

/-- `{uri}local|qname`, the way SAX2 reports a name ("" = no namespace) -/
def sax2Name (ns : Option String) (pre loc : String) : String :=
  "{" ++ optS ns ++ "}" ++ loc ++ "|" ++ qname pre loc

def showEv : Ev → List String
  | .startPrefixMapping p u => ["+" ++ p ++ "=" ++ u]
  | .endPrefixMapping p => ["-" ++ p]
  | .startElement ns p l as => ("<" ++ sax2Name ns p l) :: as.map (fun a => "@" ++ sax2Name a.ns a.pre a.loc)
  | .endElement ns p l => [">" ++ sax2Name ns p l]

def showEvs (es : List Ev) : List String := (es.map showEv).flatten

def sax1Attrs : List Item → List String
  | [] => []
  | .decl d :: r => ("@" ++ qname (if d.pre = "" then "" else "xmlns") (if d.pre = "" then "xmlns" else d.pre)) :: sax1Attrs r
  | .attr p l :: r => ("@" ++ qname p l) :: sax1Attrs r

mutual
  def sax1Events : Node → List String
    | .elem t kids => ["<" ++ qname t.pre t.loc] ++ sax1Attrs t.items ++ sax1EventsL kids ++ [">" ++ qname t.pre t.loc]
    | _ => []
  def sax1EventsL : List Node → List String
    | [] => []
    | n :: ns => sax1Events n ++ sax1EventsL ns
end

-- DOM ---------------------------------------------------------------------------------------

def nullS : Option String → String
  | some s => s
  | none => "~"

def preS (p : String) : String := if p = "" then "~" else p

/-- `{namespaceURI}prefix|localName|nodeName` ("~" = null) -/
def domName (ns : Option String) (pre loc : String) : String :=
  "{" ++ nullS ns ++ "}" ++ preS pre ++ "|" ++ loc ++ "|" ++ qname pre loc

/-- DOM attribute tokens: every namespace declaration attribute (also plain `xmlns`) is in the xmlns namespace -/
def domAttrs (path : Path) : List Item → List String
  | [] => []
  | .decl d :: r =>
      (if d.pre = "" then "@" ++ domName (some xmlnsURI) "" "xmlns" ++ "="
       else "@" ++ domName (some xmlnsURI) "xmlns" d.pre ++ "=") :: domAttrs path r
  | .attr p l :: r => ("@" ++ domName (attrNS path p) p l ++ "=") :: domAttrs path r

/-- the declared, non-default prefixes visible at `path` that are bound to `u` -/
def declaredPrefixesFor (path : Path) (u : String) : List String :=
  ((path.flatten.map (·.pre)).filter (fun p => p ≠ "" ∧ inScope path p = some u)).eraseDups

/-- the answers a correct `lookupPrefix(u)` may give at `path` ("~" = null): any declared visible prefix bound to `u`;
    for the two reserved namespace names also the reserved prefix, and null as long as no declaration binds them -/
def validPrefixes (path : Path) (u : String) : List String :=
  let res := (if u = xmlURI then ["xml"] else []) ++ (if u = xmlnsURI then ["xmlns"] else [])
  match declaredPrefixesFor path u with
  | [] => "~" :: res
  | l => l ++ res

def sepJoin (sep : String) (l : List String) : String := sep.intercalate l

/-- expected answers of the three DOM Level 3 lookups at an element whose in-scope chain is `path`:
    `L` lookupNamespaceURI(null), then each query prefix; `P` lookupPrefix of each query URI (the *set* of correct
    answers, comma separated, "~" when there is none); `D` isDefaultNamespace of each query URI. -/
def domLookups (path : Path) (qp qu : List String) : List String :=
  [ "L^" ++ sepJoin "^" ((nullS (inScope path "")) :: qp.map (fun p => nullS (inScope path p))),
    "P" ++ String.join (qu.map (fun u => "^" ++ sepJoin "," (validPrefixes path u))),
    "D" ++ String.join (qu.map (fun u => if inScope path "" = some u then "^1" else "^0")) ]

mutual
  def domDump (path : Path) (qp qu : List String) : Node → List String
    | .elem t kids =>
        let path' := path ++ [declsOf t.items]
        ["<" ++ domName (elemNS path' t.pre) t.pre t.loc] ++ domAttrs path' t.items ++ domLookups path' qp qu ++
        domDumpL path' qp qu kids ++ [">"]
    | .text => ["t="] | .comment => ["k="] | .pi => ["p="] | .cdata => ["c="]
  def domDumpL (path : Path) (qp qu : List String) : List Node → List String
    | [] => []
    | n :: ns => domDump path qp qu n ++ domDumpL path qp qu ns
end

end XV.Spec.Namespace
