/-
C19 — Spec of "no external resource is touched unless permitted": the switch table of the property text.

A document can reference external resources at the following *sites*; whether a resource referenced at a site may
be fetched at all (offered to the resolver / opened), and whether the parser's own default resolution (file, network)
may be used for it, depends only on the configuration.  This table IS the property; XV.Model.ExtGate shows that the
code-shaped fetch logic never steps outside it.

Definitions only; no Mathlib.
-/
namespace XV.Spec.ExtGate

inductive Scanner where
  | IG | WF | DG | SG
  deriving Repr, DecidableEq, Inhabited

inductive ValScheme where
  | never | auto | always
  deriving Repr, DecidableEq, Inhabited

inductive ResolverKind where
  | none      -- no entity resolver installed
  | xml       -- XMLEntityResolver (sees the whole XMLResourceIdentifier)
  | sax       -- SAX EntityResolver (sees publicId and systemId only)
  deriving Repr, DecidableEq, Inhabited

structure Cfg where
  scanner : Scanner := .IG
  disableDefault : Bool := false       -- fgXercesDisableDefaultEntityResolution
  loadExternalDTD : Bool := true       -- fgXercesLoadExternalDTD
  valScheme : ValScheme := .never      -- validation never / auto / always
  loadSchema : Bool := true            -- fgXercesLoadSchema
  doSchema : Bool := false             -- fgXercesSchema
  doNamespaces : Bool := true
  resolver : ResolverKind := .none
  deriving Repr, DecidableEq, Inhabited

/-- where an external identifier occurs -/
inductive Site where
  | extSubset            -- <!DOCTYPE r SYSTEM "...">
  | paramEntity          -- %pe; of an external parameter entity
  | generalEntity        -- &ge; of an external parsed general entity
  | schemaLocation       -- xsi:schemaLocation pair
  | noNsSchemaLocation   -- xsi:noNamespaceSchemaLocation
  | xsImport | xsInclude | xsRedefine
  deriving Repr, DecidableEq, Inhabited

/-- which document contains the site: the instance document (and its DTD / entities) or a schema document -/
inductive Ctx where
  | instance | schemaDoc
  deriving Repr, DecidableEq, Inhabited

/-- the scanner reads the DOCTYPE at all (WF and SG skip it: "the scanner that ignores DTDs") -/
def readsDTD (c : Cfg) : Bool := c.scanner == .IG || c.scanner == .DG

/-- schema processing is on: the schema-only scanner SG (its scanReset forces fDoNamespaces = fDoSchema = true), or
    the general scanner IG with namespaces and fgXercesSchema -/
def readsSchema (c : Cfg) : Bool := c.scanner == .SG || (c.scanner == .IG && c.doSchema && c.doNamespaces)

/-- validation counts as "on" for the external subset unless the scheme is `never`
    (`auto` switches validation on as soon as a DOCTYPE with a subset is seen) -/
def validationOn (c : Cfg) : Bool := c.valScheme != .never

/-- May a resource referenced at this site be fetched by any means (resolver-supplied source or default)? -/
def mayFetch (c : Cfg) : Ctx → Site → Bool
  | .instance, .extSubset => readsDTD c && (c.loadExternalDTD || validationOn c)
  | .instance, .paramEntity => readsDTD c
  | .instance, .generalEntity => readsDTD c
  | .instance, .schemaLocation => readsSchema c && c.loadSchema
  | .instance, .noNsSchemaLocation => readsSchema c && c.loadSchema
  | .instance, _ => false                                   -- import/include/redefine occur in schema documents only
  -- schema documents are read by an inner non-validating parser
  | .schemaDoc, .extSubset => readsSchema c && c.loadSchema && c.loadExternalDTD
  | .schemaDoc, .paramEntity => readsSchema c && c.loadSchema
  | .schemaDoc, .generalEntity => readsSchema c && c.loadSchema
  | .schemaDoc, .xsImport => readsSchema c && c.loadSchema
  | .schemaDoc, .xsInclude => readsSchema c && c.loadSchema
  | .schemaDoc, .xsRedefine => readsSchema c && c.loadSchema
  | .schemaDoc, _ => false

/-- May the parser's own default resolution (local file / URL) be used for it? -/
def mayOpen (c : Cfg) (x : Ctx) (s : Site) : Bool := mayFetch c x s && !c.disableDefault

end XV.Spec.ExtGate
