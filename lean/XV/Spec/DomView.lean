/-
The equality C12's round-trip check uses between two DOM trees, stated on C03's event stream (`infoset`):
what is compared is the sequence of element starts (name, attributes with their normalised values, in document
order), element ends, comments, PIs and CHARACTER DATA — with adjacent character data coalesced whatever the
division into Text nodes and CDATA sections was (so a CDATA section split at `]]>` is the same content), empty
character data dropped, and without what a DOM tree does not carry: line numbers, the XML declaration, the
`specified` flag and declared type of attributes.  Definitions only; no Mathlib.
-/
import XV.Spec.Infoset
namespace XV.Spec.DomView
open XV.Spec.Xml XV.Spec.Infoset

inductive CEv
  | start (name : Str) (attrs : List (Str × Str))
  | end_ (name : Str)
  | chars (s : Str)
  | comment (s : Str)
  | pi (target data : Str)
  deriving DecidableEq, Repr, Inhabited

/-- put character data in front of an already coalesced sequence -/
def prependChars (s : Str) : List CEv → List CEv
  | .chars s' :: r => .chars (s ++ s') :: r
  | r => if s = [] then r else .chars s :: r

/-- coalesce adjacent character data, drop empty character data -/
def coalesce : List CEv → List CEv
  | [] => []
  | .chars s :: t => prependChars s (coalesce t)
  | e :: t => e :: coalesce t

/-- the part of an event a DOM tree keeps -/
def viewOne : Event → Option CEv
  | .startElement n as _ => some (.start n (as.map fun a => (a.name, a.value)))
  | .endElement n => some (.end_ n)
  | .characters s => some (.chars s)
  | .ignorableWhitespace s => some (.chars s)
  | .comment s _ => some (.comment s)
  | .pi t d _ => some (.pi t d)
  | _ => none

def viewL (es : List Event) : List CEv := es.filterMap viewOne

/-- the content of a document as the DOM (and C12's harness) sees it -/
def domView (es : List Event) : List CEv := coalesce (viewL es)

end XV.Spec.DomView
