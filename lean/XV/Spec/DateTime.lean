/-
Spec: XML Schema Part 2 (1.0, 2nd ed.) §3.2.7 dateTime, §3.2.8 time, §3.2.9 date, §3.2.10–14 gYearMonth … gMonth:
lexical forms, field validity, the time line, the order relation of §3.2.7.4 (the 14-hour rule).
XMLCh units are `Nat`s.  Readings fixed here (all stated, none silent):
  * year: '-'? d{4,}, no leading zero when more than four digits, 0000 not allowed.  Arithmetic on years follows
    XSD 1.0 Appendix E literally: the year value as written is an ordinary integer (leap years by `y mod 4/100/400`
    of the written value, carries may pass through 0).  The other reading (-0001 directly precedes 0001) would move
    every negative year by one; nothing below depends on which calendar historians use;
  * hour 24 only as 24:00:00(.0*) = the first instant of the following day (E2-41);
  * second 60 is accepted (ISO 8601 leap second) — the implementation's reading, not contested here;
  * gMonth: both --MM (erratum E2-12) and --MM-- (original Recommendation) are lexical forms;
  * time zone: 'Z' | ('+'|'-') hh ':' mm with hh:mm ≤ 14:00.
-/
namespace XV.Spec.DateTime

inductive Kind
  | dateTime | date | time | gYearMonth | gYear | gMonthDay | gDay | gMonth
  deriving DecidableEq, Repr

inductive Tz
  | none | utc | pos (h m : Nat) | neg (h m : Nat)
  deriving DecidableEq, Repr

/-- the fields of a lexical form, as written -/
structure Raw where
  year : Int
  month : Nat
  day : Nat
  hour : Nat
  minute : Nat
  second : Nat
  frac : List Nat      -- digits of the fractional seconds, as written
  tz : Tz
  deriving DecidableEq, Repr

/-! ### lexical forms -/

def isDigitU (c : Nat) : Bool := 0x30 ≤ c && c ≤ 0x39

def numOf (ds : List Nat) : Nat := ds.foldl (fun a c => a * 10 + (c - 0x30)) 0

/-- exactly `n` digits at the front -/
def takeDigits (n : Nat) (s : List Nat) : Option (Nat × List Nat) :=
  let ds := s.take n
  if ds.length == n && ds.all isDigitU then some (numOf ds, s.drop n) else none

def expect (c : Nat) : List Nat → Option (List Nat)
  | d :: r => if d == c then some r else none
  | [] => none

/-- year := '-'? d{4,} ; more than four digits: no leading zero -/
def parseYear (s : List Nat) : Option (Int × List Nat) :=
  let (neg, r) := match s with
    | 0x2D :: r => (true, r)
    | _ => (false, s)
  let ds := r.takeWhile isDigitU
  if ds.length < 4 then none
  else if ds.length > 4 && ds.head? == some 0x30 then none
  else some ((if neg then -(numOf ds : Int) else (numOf ds : Int)), r.dropWhile isDigitU)

/-- tz := 'Z' | ('+'|'-') hh ':' mm, and nothing after it; the empty rest is "no time zone" -/
def parseTz (s : List Nat) : Option Tz :=
  match s with
  | [] => some .none
  | [0x5A] => some .utc
  | sg :: r =>
    if sg == 0x2B || sg == 0x2D then
      match takeDigits 2 r with
      | some (h, r1) => match expect 0x3A r1 with
        | some r2 => match takeDigits 2 r2 with
          | some (m, []) => some (if sg == 0x2B then .pos h m else .neg h m)
          | _ => none
        | none => none
      | none => none
    else none

/-- hh ':' mm ':' ss ('.' d+)? ; returns the rest -/
def parseTimePart (s : List Nat) : Option (Nat × Nat × Nat × List Nat × List Nat) :=
  match takeDigits 2 s with
  | some (h, r1) => match expect 0x3A r1 with
    | some r2 => match takeDigits 2 r2 with
      | some (mi, r3) => match expect 0x3A r3 with
        | some r4 => match takeDigits 2 r4 with
          | some (sec, r5) =>
            match r5 with
            | 0x2E :: r6 =>
              let fr := r6.takeWhile isDigitU
              if fr.isEmpty then none else some (h, mi, sec, fr.map (· - 0x30), r6.dropWhile isDigitU)
            | _ => some (h, mi, sec, [], r5)
          | none => none
        | none => none
      | none => none
    | none => none
  | none => none

/-- year '-' MM -/
def parseYM (s : List Nat) : Option (Int × Nat × List Nat) :=
  match parseYear s with
  | some (y, r1) => match expect 0x2D r1 with
    | some r2 => match takeDigits 2 r2 with
      | some (m, r3) => some (y, m, r3)
      | none => none
    | none => none
  | none => none

/-- year '-' MM '-' DD -/
def parseYMD (s : List Nat) : Option (Int × Nat × Nat × List Nat) :=
  match parseYM s with
  | some (y, m, r1) => match expect 0x2D r1 with
    | some r2 => match takeDigits 2 r2 with
      | some (d, r3) => some (y, m, d, r3)
      | none => none
    | none => none
  | none => none

/-- the lexical space of each type: `some raw` iff `s` is a lexical form (fields not yet range-checked) -/
def parse (k : Kind) (s : List Nat) : Option Raw :=
  match k with
  | .dateTime =>
    match parseYMD s with
    | some (y, m, d, r1) => match expect 0x54 r1 with
      | some r2 => match parseTimePart r2 with
        | some (h, mi, sec, fr, r3) => (parseTz r3).map (fun tz => ⟨y, m, d, h, mi, sec, fr, tz⟩)
        | none => none
      | none => none
    | none => none
  | .date =>
    match parseYMD s with
    | some (y, m, d, r1) => (parseTz r1).map (fun tz => ⟨y, m, d, 0, 0, 0, [], tz⟩)
    | none => none
  | .time =>
    match parseTimePart s with
    | some (h, mi, sec, fr, r1) => (parseTz r1).map (fun tz => ⟨2000, 1, 15, h, mi, sec, fr, tz⟩)
    | none => none
  | .gYearMonth =>
    match parseYM s with
    | some (y, m, r1) => (parseTz r1).map (fun tz => ⟨y, m, 15, 0, 0, 0, [], tz⟩)
    | none => none
  | .gYear =>
    match parseYear s with
    | some (y, r1) => (parseTz r1).map (fun tz => ⟨y, 1, 15, 0, 0, 0, [], tz⟩)
    | none => none
  | .gMonthDay =>
    match expect 0x2D s with
    | some r0 => match expect 0x2D r0 with
      | some r1 => match takeDigits 2 r1 with
        | some (m, r2) => match expect 0x2D r2 with
          | some r3 => match takeDigits 2 r3 with
            | some (d, r4) => (parseTz r4).map (fun tz => ⟨2000, m, d, 0, 0, 0, [], tz⟩)
            | none => none
          | none => none
        | none => none
      | none => none
    | none => none
  | .gDay =>
    match expect 0x2D s with
    | some r0 => match expect 0x2D r0 with
      | some r1 => match expect 0x2D r1 with
        | some r2 => match takeDigits 2 r2 with
          | some (d, r3) => (parseTz r3).map (fun tz => ⟨2000, 1, d, 0, 0, 0, [], tz⟩)
          | none => none
        | none => none
      | none => none
    | none => none
  | .gMonth =>
    match expect 0x2D s with
    | some r0 => match expect 0x2D r0 with
      | some r1 => match takeDigits 2 r1 with
        | some (m, r2) =>
          let r3 := match r2 with
            | 0x2D :: 0x2D :: r => r
            | _ => r2
          (parseTz r3).map (fun tz => ⟨2000, m, 15, 0, 0, 0, [], tz⟩)
        | none => none
      | none => none
    | none => none

/-! ### field validity -/

def isLeap (y : Int) : Bool := y % 4 == 0 && (y % 100 != 0 || y % 400 == 0)

def daysInMonth (y : Int) (m : Nat) : Nat :=
  if m == 4 || m == 6 || m == 9 || m == 11 then 30
  else if m == 2 then (if isLeap y then 29 else 28)
  else 31

def tzValid : Tz → Bool
  | .none => true
  | .utc => true
  | .pos h m => (h < 14 && m ≤ 59) || (h == 14 && m == 0)
  | .neg h m => (h < 14 && m ≤ 59) || (h == 14 && m == 0)

/-- §3.2.7.1: the constraints on the fields -/
def valid (r : Raw) : Bool :=
  r.year != 0
  && 1 ≤ r.month && r.month ≤ 12
  && 1 ≤ r.day && r.day ≤ daysInMonth r.year r.month
  && (r.hour ≤ 23 || (r.hour == 24 && r.minute == 0 && r.second == 0 && r.frac.all (· == 0)))
  && r.minute ≤ 59
  && r.second ≤ 60
  && tzValid r.tz

/-! ### the time line -/

/-- the year value used on the time line: the written value (Appendix E) -/
def astro (y : Int) : Int := y

def daysBeforeMonth (leap : Bool) (m : Nat) : Int :=
  let base : Int := match m with
    | 1 => 0 | 2 => 31 | 3 => 59 | 4 => 90 | 5 => 120 | 6 => 151
    | 7 => 181 | 8 => 212 | 9 => 243 | 10 => 273 | 11 => 304 | 12 => 334 | _ => 365
  if leap && m > 2 then base + 1 else base

/-- number of the day `y-m-d` (proleptic Gregorian, `y` astronomical), any integer `d` -/
def dayNumber (y : Int) (m : Nat) (d : Int) : Int :=
  365 * (y - 1) + (y - 1) / 4 - (y - 1) / 100 + (y - 1) / 400 + daysBeforeMonth (isLeap y) m + d

def tzMinutes : Tz → Int
  | .none => 0
  | .utc => 0
  | .pos h m => (h * 60 + m : Nat)
  | .neg h m => -((h * 60 + m : Nat) : Int)

def zoned : Tz → Bool
  | .none => false
  | _ => true

/-- seconds on the time line (UTC if zoned, local otherwise), fraction apart.  For xs:time the value is a time of day:
24:00:00 is 00:00:00. -/
def instant (k : Kind) (r : Raw) : Int :=
  let h : Int := if k == .time && r.hour == 24 then 0 else r.hour
  ((dayNumber (astro r.year) r.month r.day * 24 + h) * 60 + r.minute - tzMinutes r.tz) * 60 + r.second

/-- fractional seconds as digit lists: order of the decimal fractions -/
def cmpFrac : List Nat → List Nat → Ordering
  | [], [] => .eq
  | [], d :: y => if (d :: y).all (· == 0) then .eq else .lt
  | c :: x, [] => if (c :: x).all (· == 0) then .eq else .gt
  | c :: x, d :: y => if c < d then .lt else if d < c then .gt else cmpFrac x y

inductive Ord4 | lt | eq | gt | indeterminate
  deriving DecidableEq, Repr

def ofOrdering : Ordering → Ord4
  | .lt => .lt | .eq => .eq | .gt => .gt

def cmpVal (k : Kind) (a b : Raw) (shiftB : Int) : Ordering :=
  let x := instant k a
  let y := instant k b + shiftB
  if x < y then .lt else if y < x then .gt else cmpFrac a.frac b.frac

/-- §3.2.7.4 order relation.  A. both zoned or both unzoned: compare on the time line.
B. P zoned, Q not: P < Q if P < (Q with +14:00), P > Q if P > (Q with -14:00), otherwise indeterminate.
C. symmetric. -/
def specOrder (k : Kind) (a b : Raw) : Ord4 :=
  match zoned a.tz, zoned b.tz with
  | true, true => ofOrdering (cmpVal k a b 0)
  | false, false => ofOrdering (cmpVal k a b 0)
  | true, false =>
    if cmpVal k a b (-(14 * 3600)) == .lt then .lt
    else if cmpVal k a b (14 * 3600) == .gt then .gt
    else .indeterminate
  | false, true =>
    -- a unzoned (Q), b zoned (P): Q > P iff P < Q+14:00 i.e. b < a - 14h ; Q < P iff P > Q-14:00 i.e. b > a + 14h
    if cmpVal k b a (-(14 * 3600)) == .lt then .gt
    else if cmpVal k b a (14 * 3600) == .gt then .lt
    else .indeterminate

end XV.Spec.DateTime
