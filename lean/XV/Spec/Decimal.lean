/-
Spec: XML Schema Part 2 (Datatypes) §3.2.3 decimal, §3.3.13 integer.

  decimal lexical space  ::=  ('+' | '-')? ( [0-9]+ ('.' [0-9]*)? | '.' [0-9]+ )
  integer lexical space  ::=  ('+' | '-')? [0-9]+
  value                  ::=  m · 10^(-k), carried as the pair (m : Int, k : Nat)
  order                  ::=  the order of the rationals, by cross-multiplication
  totalDigits (E2-44)    ::=  the value is i · 10^(-n) with |i| < 10^totalDigits and 0 ≤ n ≤ totalDigits
  fractionDigits         ::=  the value is i · 10^(-n) with n ≤ fractionDigits

Strings are lists of `Char` (one per XMLCh code unit).  Executable: the driver runs `isDecimalLex`,
`val`, `cmpSpec` as the judge of the implementation.
-/
namespace XV.Spec.Decimal

def isDigit (c : Char) : Bool := decide (48 ≤ c.toNat) && decide (c.toNat ≤ 57)
def digitVal (c : Char) : Nat := c.toNat - 48

/-- the natural number written by a digit string (most significant digit first) -/
def natOf (ds : List Char) : Nat := ds.foldl (fun a c => a * 10 + digitVal c) 0

/-- XML white space `S` (#x20 | #x9 | #xD | #xA) -/
def isWs (c : Char) : Bool := c == ' ' || c == '\t' || c == '\n' || c == '\r'

/-- For a type whose lexical forms contain no white space, whiteSpace=collapse amounts to trimming:
interior white space survives as a #x20, which no lexical form contains. -/
def trimWs (s : List Char) : List Char := ((s.dropWhile isWs).reverse.dropWhile isWs).reverse

/-- the string without its optional sign -/
def unsigned : List Char → List Char
  | '+' :: r => r
  | '-' :: r => r
  | s => s

def isNeg : List Char → Bool
  | '-' :: _ => true
  | _ => false

def intPart (s : List Char) : List Char := (unsigned s).takeWhile isDigit
def afterInt (s : List Char) : List Char := (unsigned s).dropWhile isDigit
def fracPart (s : List Char) : List Char :=
  match afterInt s with
  | '.' :: f => f
  | _ => []

/-- §3.2.3.1: optional sign, digits with an optional fraction, at least one digit overall. -/
def isDecimalLex (s : List Char) : Bool :=
  match afterInt s with
  | [] => !(intPart s).isEmpty
  | '.' :: f => f.all isDigit && (!(intPart s).isEmpty || !f.isEmpty)
  | _ => false

/-- §3.3.13.1: optional sign, at least one digit, nothing else. -/
def isIntegerLex (s : List Char) : Bool :=
  (afterInt s).isEmpty && !(intPart s).isEmpty

/-- The value of a lexical form: mantissa (all digits, sign applied) and scale (number of fraction digits). -/
def val (s : List Char) : Int × Nat :=
  let m : Int := (natOf (intPart s ++ fracPart s) : Nat)
  (if isNeg s then -m else m, (fracPart s).length)

/-- value of an integer lexical form -/
def intVal (s : List Char) : Int :=
  let m : Int := (natOf (intPart s) : Nat)
  if isNeg s then -m else m

/-- order of `a.1 · 10^-a.2` and `b.1 · 10^-b.2` -/
def cmpSpec (a b : Int × Nat) : Ordering :=
  if a.1 * 10 ^ b.2 < b.1 * 10 ^ a.2 then .lt
  else if b.1 * 10 ^ a.2 < a.1 * 10 ^ b.2 then .gt
  else .eq

/-- same rational -/
def valEq (a b : Int × Nat) : Prop := a.1 * 10 ^ b.2 = b.1 * 10 ^ a.2

/-- the same number written with `t` more fraction digits -/
def scaleUp (a : Int × Nat) (t : Nat) : Int × Nat := (a.1 * 10 ^ t, a.2 + t)

/-- `-1 / 0 / 1` as returned by `compareValues` -/
def ordInt : Ordering → Int
  | .lt => -1
  | .eq => 0
  | .gt => 1

/-- E2-44: `v` is expressible as `i · 10^-n` with `|i| < 10^td` and `n ≤ td`. -/
def totalDigitsOk (v : Int × Nat) (td : Nat) : Prop :=
  ∃ i : Int, ∃ n : Nat, valEq v (i, n) ∧ i.natAbs < 10 ^ td ∧ n ≤ td

/-- fractionDigits: `v` is expressible as `i · 10^-n` with `n ≤ fd`. -/
def fractionDigitsOk (v : Int × Nat) (fd : Nat) : Prop :=
  ∃ i : Int, ∃ n : Nat, valEq v (i, n) ∧ n ≤ fd

def startsWithPlus : List Char → Bool
  | '+' :: _ => true
  | _ => false

def hasPoint (s : List Char) : Bool :=
  match afterInt s with
  | '.' :: _ => true
  | _ => false

/-- canonical lexical form of decimal (§3.2.3.2): optional '-', digits '.' digits, at least one digit on
each side, no superfluous leading or trailing zero, no sign on zero, never '+'. -/
def isCanonicalDecimal (s : List Char) : Bool :=
  let ip := intPart s
  let fp := fracPart s
  isDecimalLex s
  && !startsWithPlus s
  && hasPoint s
  && !ip.isEmpty && !fp.isEmpty
  && (ip.length == 1 || ip.head? != some '0')
  && (fp.length == 1 || fp.getLast? != some '0')
  && !(isNeg s && natOf (ip ++ fp) == 0)

end XV.Spec.Decimal
