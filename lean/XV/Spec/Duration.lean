/-
Spec: XML Schema Part 2 §3.2.6 duration.
  lexical   ::= '-'? 'P' (nY)? (nM)? (nD)? ('T' (nH)? (nM)? (n('.'n)?S)?)?   n = [0-9]+,
                at least one designator, and at least one time item after a 'T' (E2-23: digits on both sides of '.').
  value     ::= (months, seconds) with the sign applied to every component (here the components are kept apart).
  order     ::= §3.2.6.2: x < y iff s+x < s+y for EACH of the four dateTimes 1696-09-01T00:00:00Z, 1697-02-01T00:00:00Z,
                1903-03-01T00:00:00Z, 1903-07-01T00:00:00Z; if the four outcomes differ the order is indeterminate.
  s + x     ::= Appendix E: add the months (carry into years), then the days and the time as a linear quantity.
XMLCh units are `Nat`s.
-/
import XV.Spec.DateTime
namespace XV.Spec.Duration
open XV.Spec.DateTime

structure Dur where
  neg : Bool
  years : Nat
  months : Nat
  days : Nat
  hours : Nat
  minutes : Nat
  seconds : Nat
  frac : List Nat        -- digits of the fractional seconds
  deriving DecidableEq, Repr

/-- `n X` : one or more digits followed by the designator `x`; `none` if the front is not of that form -/
def item (x : Nat) (s : List Nat) : Option (Nat × List Nat) :=
  let ds := s.takeWhile isDigitU
  match s.dropWhile isDigitU with
  | c :: r => if c == x && !ds.isEmpty then some (numOf ds, r) else none
  | [] => none

/-- optional item -/
def optItem (x : Nat) (s : List Nat) : Nat × List Nat × Bool :=
  match item x s with
  | some (n, r) => (n, r, true)
  | none => (0, s, false)

/-- seconds: n ('.' n)? 'S' -/
def secItem (s : List Nat) : Option (Nat × List Nat × List Nat) :=
  let ds := s.takeWhile isDigitU
  if ds.isEmpty then none else
  match s.dropWhile isDigitU with
  | 0x53 :: r => some (numOf ds, [], r)
  | 0x2E :: r1 =>
    let fs := r1.takeWhile isDigitU
    if fs.isEmpty then none else
    match r1.dropWhile isDigitU with
    | 0x53 :: r => some (numOf ds, fs.map (· - 0x30), r)
    | _ => none
  | _ => none

/-- the lexical space: `some d` iff `s` is a lexical form of xs:duration -/
def parse (s : List Nat) : Option Dur :=
  let (neg, s1) := match s with
    | 0x2D :: r => (true, r)
    | _ => (false, s)
  match s1 with
  | 0x50 :: s2 =>
    let (y, s3, hy) := optItem 0x59 s2
    let (mo, s4, hmo) := optItem 0x4D s3
    let (d, s5, hd) := optItem 0x44 s4
    match s5 with
    | [] => if hy || hmo || hd then some ⟨neg, y, mo, d, 0, 0, 0, []⟩ else none
    | 0x54 :: t1 =>
      let (h, t2, hh) := optItem 0x48 t1
      let (mi, t3, hmi) := optItem 0x4D t2
      match t3 with
      | [] => if hh || hmi then some ⟨neg, y, mo, d, h, mi, 0, []⟩ else none
      | _ => match secItem t3 with
        | some (sec, fr, []) => some ⟨neg, y, mo, d, h, mi, sec, fr⟩
        | _ => none
    | _ => none
  | _ => none

/-- the four reference dateTimes of §3.2.6.2: (year, month); day 1, 00:00:00Z -/
def refs : List (Int × Nat) := [(1696, 9), (1697, 2), (1903, 3), (1903, 7)]

def sgn (d : Dur) : Int := if d.neg then -1 else 1

/-- total months and the linear part in seconds (fraction apart) -/
def monthsOf (d : Dur) : Int := sgn d * ((d.years * 12 + d.months : Nat) : Int)
def secondsOf (d : Dur) : Int := sgn d * ((((d.days * 24 + d.hours) * 60 + d.minutes) * 60 + d.seconds : Nat) : Int)

/-- `s + x` (Appendix E) for the reference `(y, m)`-01T00:00:00Z, in seconds on the time line -/
def addTo (r : Int × Nat) (d : Dur) : Int :=
  let t : Int := (r.2 : Int) - 1 + monthsOf d          -- months since January of year r.1
  let y := r.1 + t / 12
  let m := (t % 12).toNat + 1
  dayNumber y m 1 * 86400 + secondsOf d

/-- order of the fractions, sign applied -/
def fracOrd (a b : Dur) : Ordering :=
  let c := cmpFrac a.frac b.frac
  match a.neg, b.neg with
  | false, false => c
  | true, true => c.swap
  | false, true => if a.frac.all (· == 0) && b.frac.all (· == 0) then .eq else .gt
  | true, false => if a.frac.all (· == 0) && b.frac.all (· == 0) then .eq else .lt

def cmpAt (r : Int × Nat) (a b : Dur) : Ordering :=
  if addTo r a < addTo r b then .lt else if addTo r b < addTo r a then .gt else fracOrd a b

/-- §3.2.6.2 -/
def durOrder (a b : Dur) : Ord4 :=
  let cs := refs.map (fun r => cmpAt r a b)
  if cs.all (· == .lt) then .lt
  else if cs.all (· == .gt) then .gt
  else if cs.all (· == .eq) then .eq
  else .indeterminate

end XV.Spec.Duration
