/-
C19 — Spec of entity expansion (XML 1.0 §4.4 "Included", §4.1 WFC "No Recursion").

An entity table maps names to replacement text; replacement text is a list of items: a character, a reference
to one of the five predefined entities (`special`, never looked up in the table) or a reference `ref n` to a
declared entity.  General and parameter entities are not distinguished here: the only things the property talks
about are *how many* references are expanded and *whether* expansion is well-founded, and both notions are the
same for `&n;` and `%n;` (the generators give general and parameter entities disjoint names).

`Expands tbl cs t o k` the *declarative* meaning: text `t` has the (finite) full expansion `o` and producing it
                      expands exactly `k` entity references (`cs`: references to the five predefined entities are
                      counted as well — the convention of the scanners that have nothing but those).  A derivation exists iff every referenced entity is
                      declared and no entity reachable from `t` refers to itself, directly or indirectly
                      (a derivation is a finite tree).  `k` is "the number of entity references the processing
                      of the document expands" of the property text.
`Chain tbl t c`       `c = [n₀, n₁, …]` : `n₀` is referenced in `t`, `n₁` in the replacement text of `n₀`, …
`SelfRef tbl t n`     entity `n` is reachable from `t` and (directly or indirectly) refers to itself.

Definitions only; no Mathlib.
-/
namespace XV.Spec.Entity

abbrev Name := Nat

inductive Item where
  | ch (c : Nat)          -- a character (code point)
  | special (c : Nat)     -- &amp; &lt; &gt; &apos; &quot;  (c = the character it stands for)
  | ref (n : Name)        -- &n;  or  %n;
  deriving Repr, DecidableEq, Inhabited

abbrev Text := List Item

/-- Entity declarations in document order; the first declaration of a name binds (XML 1.0 §4.2). -/
abbrev Table := List (Name × Text)

def Table.get : Table → Name → Option Text
  | [], _ => none
  | (m, v) :: rest, n => if m = n then some v else Table.get rest n

def names (tbl : Table) : List Name := tbl.map (·.1)

/-- the entity names referenced directly in a text -/
def refs : Text → List Name
  | [] => []
  | .ref n :: t => n :: refs t
  | _ :: t => refs t

/-- weight of a predefined-entity reference in the expansion count -/
def spw (cs : Bool) : Nat := if cs then 1 else 0

/-- full expansion `o` of `t` using `k` counted expansions -/
inductive Expands (tbl : Table) (cs : Bool) : Text → List Nat → Nat → Prop where
  | nil : Expands tbl cs [] [] 0
  | ch {c t o k} : Expands tbl cs t o k → Expands tbl cs (.ch c :: t) (c :: o) k
  | special {c t o k} : Expands tbl cs t o k → Expands tbl cs (.special c :: t) (c :: o) (k + spw cs)
  | ref {n v t o₁ k₁ o₂ k₂} : tbl.get n = some v → Expands tbl cs v o₁ k₁ → Expands tbl cs t o₂ k₂ →
      Expands tbl cs (.ref n :: t) (o₁ ++ o₂) (k₁ + k₂ + 1)

/-- reference chains starting in a text -/
inductive Chain (tbl : Table) : Text → List Name → Prop where
  | one {t n} : n ∈ refs t → Chain tbl t [n]
  | cons {t n v c} : n ∈ refs t → tbl.get n = some v → Chain tbl v c → Chain tbl t (n :: c)

/-- `n` is reachable from `t` and refers to itself directly or indirectly -/
def SelfRef (tbl : Table) (t : Text) (n : Name) : Prop :=
  ∃ p q v, Chain tbl t (p ++ [n]) ∧ tbl.get n = some v ∧ Chain tbl v (q ++ [n])

end XV.Spec.Entity
